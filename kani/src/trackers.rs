//! C17 (leaf part): the composite tracker delivers the identical call, with the identical argument references, to child 0
//! then child 1; the recording tracker stores exactly one event of the right variant, payload and index per call; the
//! query helpers agree with the reference relation "variant matches and subject equals".
use crate::common::A;
use pie::tracker::event::{Event, EventTracker};
use pie::tracker::{CompositeTracker, Tracker};
use pie::trait_object::{KeyObj, ValueObj};
use pie::verif_hooks::AsAny;
use std::error::Error;
use std::fmt::Debug;

static mut SEQ: u32 = 0;
#[derive(Default)]
struct Rec { calls: u32, method: u8, a: [usize; 4], when: u32 }
fn addr<T: ?Sized>(t: &T) -> usize { t as *const T as *const u8 as usize }
impl Rec {
  fn rec(&mut self, m: u8, a0: usize, a1: usize, a2: usize, a3: usize) {
    self.calls += 1; self.method = m; self.a = [a0, a1, a2, a3];
    unsafe { SEQ += 1; self.when = SEQ; }
  }
}
fn opt(i: Option<&dyn Debug>) -> usize { match i { None => 0, Some(d) => addr(d) } }
fn res(i: Result<Option<&dyn Debug>, &dyn Error>) -> usize { match i { Ok(None) => 0, Ok(Some(d)) => addr(d), Err(e) => addr(e) | 1 } }
impl Tracker for Rec {
  fn build_start(&mut self) { self.rec(1, 0, 0, 0, 0) }
  fn build_end(&mut self) { self.rec(2, 0, 0, 0, 0) }
  fn require_start(&mut self, t: &dyn KeyObj, c: &dyn ValueObj) { self.rec(3, addr(t), addr(c), 0, 0) }
  fn require_end(&mut self, t: &dyn KeyObj, c: &dyn ValueObj, s: &dyn ValueObj, o: &dyn ValueObj) { self.rec(4, addr(t), addr(c), addr(s), addr(o)) }
  fn read_start(&mut self, r: &dyn KeyObj, c: &dyn ValueObj) { self.rec(5, addr(r), addr(c), 0, 0) }
  fn read_end(&mut self, r: &dyn KeyObj, c: &dyn ValueObj, s: &dyn ValueObj) { self.rec(6, addr(r), addr(c), addr(s), 0) }
  fn write_start(&mut self, r: &dyn KeyObj, c: &dyn ValueObj) { self.rec(7, addr(r), addr(c), 0, 0) }
  fn write_end(&mut self, r: &dyn KeyObj, c: &dyn ValueObj, s: &dyn ValueObj) { self.rec(8, addr(r), addr(c), addr(s), 0) }
  fn check_task_start(&mut self, t: &dyn KeyObj, c: &dyn ValueObj, s: &dyn ValueObj) { self.rec(9, addr(t), addr(c), addr(s), 0) }
  fn check_task_end(&mut self, t: &dyn KeyObj, c: &dyn ValueObj, s: &dyn ValueObj, i: Option<&dyn Debug>) { self.rec(10, addr(t), addr(c), addr(s), opt(i)) }
  fn check_resource_start(&mut self, r: &dyn KeyObj, c: &dyn ValueObj, s: &dyn ValueObj) { self.rec(11, addr(r), addr(c), addr(s), 0) }
  fn check_resource_end(&mut self, r: &dyn KeyObj, c: &dyn ValueObj, s: &dyn ValueObj, i: Result<Option<&dyn Debug>, &dyn Error>) { self.rec(12, addr(r), addr(c), addr(s), res(i)) }
  fn execute_start(&mut self, t: &dyn KeyObj) { self.rec(13, addr(t), 0, 0, 0) }
  fn execute_end(&mut self, t: &dyn KeyObj, o: &dyn ValueObj) { self.rec(14, addr(t), addr(o), 0, 0) }
  fn schedule_affected_by_task_start(&mut self, t: &dyn KeyObj) { self.rec(15, addr(t), 0, 0, 0) }
  fn check_task_require_task_start(&mut self, t: &dyn KeyObj, c: &dyn ValueObj, s: &dyn ValueObj) { self.rec(16, addr(t), addr(c), addr(s), 0) }
  fn check_task_require_task_end(&mut self, t: &dyn KeyObj, c: &dyn ValueObj, s: &dyn ValueObj, i: Option<&dyn Debug>) { self.rec(17, addr(t), addr(c), addr(s), opt(i)) }
  fn schedule_affected_by_task_end(&mut self, t: &dyn KeyObj) { self.rec(18, addr(t), 0, 0, 0) }
  fn schedule_affected_by_resource_start(&mut self, r: &dyn KeyObj) { self.rec(19, addr(r), 0, 0, 0) }
  fn check_task_read_resource_start(&mut self, t: &dyn KeyObj, c: &dyn ValueObj, s: &dyn ValueObj) { self.rec(20, addr(t), addr(c), addr(s), 0) }
  fn check_task_read_resource_end(&mut self, t: &dyn KeyObj, c: &dyn ValueObj, s: &dyn ValueObj, i: Result<Option<&dyn Debug>, &dyn Error>) { self.rec(21, addr(t), addr(c), addr(s), res(i)) }
  fn schedule_affected_by_resource_end(&mut self, r: &dyn KeyObj) { self.rec(22, addr(r), 0, 0, 0) }
  fn schedule_task(&mut self, t: &dyn KeyObj) { self.rec(23, addr(t), 0, 0, 0) }
}

type C = CompositeTracker<Rec, Rec>;
fn fresh() -> C { CompositeTracker::new(Rec::default(), Rec::default()) }
/// exactly one call of method `m` with arguments `a` reached child 0 and then child 1
fn same(c: &C, m: u8, a: [usize; 4]) {
  assert!(c.0.calls == 1 && c.1.calls == 1);
  assert!(c.0.method == m && c.1.method == m);
  assert!(c.0.a[0] == a[0] && c.0.a[1] == a[1] && c.0.a[2] == a[2] && c.0.a[3] == a[3]);
  assert!(c.1.a[0] == a[0] && c.1.a[1] == a[1] && c.1.a[2] == a[2] && c.1.a[3] == a[3]);
  assert!(c.0.when < c.1.when);
}
#[derive(Debug)] struct E(u8);
impl std::fmt::Display for E { fn fmt(&self, _f: &mut std::fmt::Formatter<'_>) -> std::fmt::Result { Ok(()) } }
impl Error for E {}

#[kani::proof]
fn c17_composite_forwards_top_down_methods() {
  let k = A(kani::any()); let v: u8 = kani::any(); let s: u16 = kani::any(); let o: u32 = kani::any(); let d: u64 = kani::any(); let e = E(kani::any());
  let (ak, av, as_, ao, ad, ae) = (addr(&k), addr(&v), addr(&s), addr(&o), addr(&d), addr(&e));
  let mut c = fresh(); c.build_start(); same(&c, 1, [0, 0, 0, 0]);
  let mut c = fresh(); c.build_end(); same(&c, 2, [0, 0, 0, 0]);
  let mut c = fresh(); c.require_start(&k, &v); same(&c, 3, [ak, av, 0, 0]);
  let mut c = fresh(); c.require_end(&k, &v, &s, &o); same(&c, 4, [ak, av, as_, ao]);
  let mut c = fresh(); c.read_start(&k, &v); same(&c, 5, [ak, av, 0, 0]);
  let mut c = fresh(); c.read_end(&k, &v, &s); same(&c, 6, [ak, av, as_, 0]);
  let mut c = fresh(); c.write_start(&k, &v); same(&c, 7, [ak, av, 0, 0]);
  let mut c = fresh(); c.write_end(&k, &v, &s); same(&c, 8, [ak, av, as_, 0]);
  let mut c = fresh(); c.check_task_start(&k, &v, &s); same(&c, 9, [ak, av, as_, 0]);
  let mut c = fresh(); c.check_task_end(&k, &v, &s, Some(&d)); same(&c, 10, [ak, av, as_, ad]);
  let mut c = fresh(); c.check_task_end(&k, &v, &s, None); same(&c, 10, [ak, av, as_, 0]);
  let mut c = fresh(); c.check_resource_start(&k, &v, &s); same(&c, 11, [ak, av, as_, 0]);
  let mut c = fresh(); c.check_resource_end(&k, &v, &s, Ok(Some(&d))); same(&c, 12, [ak, av, as_, ad]);
  let mut c = fresh(); c.check_resource_end(&k, &v, &s, Ok(None)); same(&c, 12, [ak, av, as_, 0]);
  let mut c = fresh(); c.check_resource_end(&k, &v, &s, Err(&e)); same(&c, 12, [ak, av, as_, ae | 1]);
  let mut c = fresh(); c.execute_start(&k); same(&c, 13, [ak, 0, 0, 0]);
  let mut c = fresh(); c.execute_end(&k, &o); same(&c, 14, [ak, ao, 0, 0]);
}

#[kani::proof]
fn c17_composite_forwards_bottom_up_methods() {
  let k = A(kani::any()); let v: u8 = kani::any(); let s: u16 = kani::any(); let d: u64 = kani::any(); let e = E(kani::any());
  let (ak, av, as_, ad, ae) = (addr(&k), addr(&v), addr(&s), addr(&d), addr(&e));
  let mut c = fresh(); c.schedule_affected_by_task_start(&k); same(&c, 15, [ak, 0, 0, 0]);
  let mut c = fresh(); c.check_task_require_task_start(&k, &v, &s); same(&c, 16, [ak, av, as_, 0]);
  let mut c = fresh(); c.check_task_require_task_end(&k, &v, &s, Some(&d)); same(&c, 17, [ak, av, as_, ad]);
  let mut c = fresh(); c.check_task_require_task_end(&k, &v, &s, None); same(&c, 17, [ak, av, as_, 0]);
  let mut c = fresh(); c.schedule_affected_by_task_end(&k); same(&c, 18, [ak, 0, 0, 0]);
  let mut c = fresh(); c.schedule_affected_by_resource_start(&k); same(&c, 19, [ak, 0, 0, 0]);
  let mut c = fresh(); c.check_task_read_resource_start(&k, &v, &s); same(&c, 20, [ak, av, as_, 0]);
  let mut c = fresh(); c.check_task_read_resource_end(&k, &v, &s, Ok(Some(&d))); same(&c, 21, [ak, av, as_, ad]);
  let mut c = fresh(); c.check_task_read_resource_end(&k, &v, &s, Err(&e)); same(&c, 21, [ak, av, as_, ae | 1]);
  let mut c = fresh(); c.schedule_affected_by_resource_end(&k); same(&c, 22, [ak, 0, 0, 0]);
  let mut c = fresh(); c.schedule_task(&k); same(&c, 23, [ak, 0, 0, 0]);
}

// ---------------------------------------------------------------------------------------------------------------------
fn is_a(k: &dyn KeyObj, x: &A) -> bool { k.as_any().downcast_ref::<A>() == Some(x) }
fn is_u8(v: &dyn ValueObj, x: u8) -> bool { v.as_any().downcast_ref::<u8>() == Some(&x) }
fn is_u16(v: &dyn ValueObj, x: u16) -> bool { v.as_any().downcast_ref::<u16>() == Some(&x) }
fn is_u32(v: &dyn ValueObj, x: u32) -> bool { v.as_any().downcast_ref::<u32>() == Some(&x) }

/// two events first, so that a correct `index` is 2 (and not 0 or the number of events of a kind)
fn prefixed() -> EventTracker { let mut t = EventTracker::default(); t.build_start(); t.build_end(); t }

/// the index stored in an event is its position in the CURRENT stream (build_start clears the stream), also when the tracker has
/// recorded an earlier build: not a count over the tracker's lifetime
#[kani::proof]
fn c17_event_tracker_index_is_position_after_an_earlier_build() {
  let k = A(kani::any()); let v: u8 = kani::any();
  let mut t = EventTracker::default();
  t.build_start(); t.build_end();
  t.build_start();
  t.require_start(&k, &v);
  let ev = t.slice();
  assert!(ev.len() == 2 && ev[0].is_build_start());
  match &ev[1] { Event::RequireStart(d) => assert!(d.index == 1), _ => assert!(false) }
}

#[kani::proof]
fn c17_event_tracker_build_events() {
  let mut t = EventTracker::default();
  t.build_end(); t.build_end();
  assert!(t.slice().len() == 2);
  t.build_start();                                   // clears on build start (documented default)
  assert!(t.slice().len() == 1 && t.slice()[0].is_build_start() && !t.slice()[0].is_build_end());
  t.build_end();
  assert!(t.slice().len() == 2 && t.slice()[1].is_build_end() && !t.slice()[1].is_build_start());
  assert!(t.slice()[0].is_build_start());
}

#[kani::proof]
fn c17_event_tracker_require_events() {
  let k = A(kani::any()); let q = A(kani::any()); let v: u8 = kani::any(); let s: u16 = kani::any(); let o: u32 = kani::any();
  let mut t = prefixed();
  t.require_start(&k, &v);
  t.require_end(&k, &v, &s, &o);
  let ev = t.slice();
  assert!(ev.len() == 4);
  match &ev[2] { Event::RequireStart(d) => assert!(is_a(d.task.as_ref(), &k) && is_u8(d.checker.as_ref(), v) && d.index == 2), _ => assert!(false) }
  match &ev[3] { Event::RequireEnd(d) => assert!(is_a(d.task.as_ref(), &k) && is_u8(d.checker.as_ref(), v) && is_u16(d.stamp.as_ref(), s) && is_u32(d.output.as_ref(), o) && d.index == 3), _ => assert!(false) }
  // helpers against the reference relation
  assert!(ev[2].match_require_start(&q).is_some() == (k == q));
  assert!(ev[3].match_require_end(&q).is_some() == (k == q));
  assert!(ev[2].match_require_end(&q).is_none() && ev[3].match_require_start(&q).is_none());
  assert!(ev[2].match_read_start(&q).is_none() && ev[2].match_write_start(&q).is_none() && ev[2].match_execute_start(&q).is_none());
  assert!(ev[3].match_read_end(&q).is_none() && ev[3].match_write_end(&q).is_none() && ev[3].match_execute_end(&q).is_none());
  assert!(!ev[2].is_execute() && !ev[3].is_execute() && !ev[2].is_execute_of(&q) && !ev[3].is_execute_of(&q));
  assert!(!ev[2].is_build_start() && !ev[2].is_build_end() && !ev[3].is_build_start() && !ev[3].is_build_end());
  assert!(ev[0].match_require_start(&q).is_none() && ev[1].match_require_end(&q).is_none());
}

#[kani::proof]
fn c17_event_tracker_read_write_events() {
  let k = A(kani::any()); let q = A(kani::any()); let v: u8 = kani::any(); let s: u16 = kani::any();
  let mut t = prefixed();
  t.read_start(&k, &v);
  t.read_end(&k, &v, &s);
  t.write_start(&k, &v);
  t.write_end(&k, &v, &s);
  let ev = t.slice();
  assert!(ev.len() == 6);
  match &ev[2] { Event::ReadStart(d) => assert!(is_a(d.resource.as_ref(), &k) && is_u8(d.checker.as_ref(), v) && d.index == 2), _ => assert!(false) }
  match &ev[3] { Event::ReadEnd(d) => assert!(is_a(d.resource.as_ref(), &k) && is_u8(d.checker.as_ref(), v) && is_u16(d.stamp.as_ref(), s) && d.index == 3), _ => assert!(false) }
  match &ev[4] { Event::WriteStart(d) => assert!(is_a(d.resource.as_ref(), &k) && is_u8(d.checker.as_ref(), v) && d.index == 4), _ => assert!(false) }
  match &ev[5] { Event::WriteEnd(d) => assert!(is_a(d.resource.as_ref(), &k) && is_u8(d.checker.as_ref(), v) && is_u16(d.stamp.as_ref(), s) && d.index == 5), _ => assert!(false) }
  assert!(ev[2].match_read_start(&q).is_some() == (k == q) && ev[3].match_read_end(&q).is_some() == (k == q));
  assert!(ev[4].match_write_start(&q).is_some() == (k == q) && ev[5].match_write_end(&q).is_some() == (k == q));
  assert!(ev[2].match_read_end(&q).is_none() && ev[2].match_write_start(&q).is_none() && ev[2].match_write_end(&q).is_none());
  assert!(ev[3].match_read_start(&q).is_none() && ev[3].match_write_start(&q).is_none() && ev[3].match_write_end(&q).is_none());
  assert!(ev[4].match_read_start(&q).is_none() && ev[4].match_read_end(&q).is_none() && ev[4].match_write_end(&q).is_none());
  assert!(ev[5].match_read_start(&q).is_none() && ev[5].match_read_end(&q).is_none() && ev[5].match_write_start(&q).is_none());
  assert!(ev[2].match_require_start(&q).is_none() && ev[3].match_require_end(&q).is_none() && ev[4].match_execute_start(&q).is_none() && ev[5].match_execute_end(&q).is_none());
  assert!(!ev[2].is_execute() && !ev[3].is_execute() && !ev[4].is_execute() && !ev[5].is_execute());
  assert!(!ev[4].is_build_end() && !ev[5].is_build_start());
}

#[kani::proof]
fn c17_event_tracker_execute_events() {
  let k = A(kani::any()); let q = A(kani::any()); let o: u32 = kani::any();
  let mut t = prefixed();
  t.execute_start(&k);
  t.execute_end(&k, &o);
  let ev = t.slice();
  assert!(ev.len() == 4);
  match &ev[2] { Event::ExecuteStart(d) => assert!(is_a(d.task.as_ref(), &k) && d.index == 2), _ => assert!(false) }
  match &ev[3] { Event::ExecuteEnd(d) => assert!(is_a(d.task.as_ref(), &k) && is_u32(d.output.as_ref(), o) && d.index == 3), _ => assert!(false) }
  assert!(ev[2].match_execute_start(&q).is_some() == (k == q) && ev[3].match_execute_end(&q).is_some() == (k == q));
  assert!(ev[2].match_execute_end(&q).is_none() && ev[3].match_execute_start(&q).is_none());
  assert!(ev[2].is_execute() && ev[3].is_execute());
  assert!(ev[2].is_execute_of(&q) == (k == q) && ev[3].is_execute_of(&q) == (k == q));
  assert!(!ev[0].is_execute() && !ev[1].is_execute() && !ev[0].is_execute_of(&q));
  assert!(ev[2].match_require_start(&q).is_none() && ev[3].match_require_end(&q).is_none() && ev[2].match_read_start(&q).is_none() && ev[3].match_write_end(&q).is_none());
  assert!(!ev[2].is_build_start() && !ev[3].is_build_end());
}
