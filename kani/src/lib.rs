//! Kani harnesses over the *compiled real crates* (path dependencies on /repo/pie, /repo/graph).
//! Every harness is loop-free over `kani::any()` inputs of the instantiations it names: a complete proof for those
//! instantiations, not a bounded run.  Code that Verus cannot parse (`dyn Any` down-casts) is decided here.
#![allow(dead_code)]
#[cfg(kani)] mod common;
#[cfg(kani)] mod identity;
#[cfg(kani)] mod checkers;
#[cfg(kani)] mod trackers;
