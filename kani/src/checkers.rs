//! C12 on concrete instantiations, through the real `OutputChecker` trait and through the object-safe proxy
//! `OutputCheckerObj` (down-cast of the stamp): gives concrete counterexamples for the generic Verus proof.
use pie::task::{AlwaysConsistent, EqualsChecker, ErrEqualsChecker, OkEqualsChecker, ResultChecker};
use pie::verif_hooks::OutputCheckerObj;
use pie::OutputChecker;

type R = Result<u8, u8>;
fn any_r() -> R { if kani::any() { Ok(kani::any()) } else { Err(kani::any()) } }
fn rel_ok(a: &R, b: &R) -> bool { match (a, b) { (Ok(x), Ok(y)) => x == y, (Err(_), Err(_)) => true, _ => false } }
fn rel_err(a: &R, b: &R) -> bool { match (a, b) { (Err(x), Err(y)) => x == y, (Ok(_), Ok(_)) => true, _ => false } }

#[kani::proof]
fn c12_equals_u8_and_option() {
  let o1: u8 = kani::any(); let o2: u8 = kani::any();
  let s = EqualsChecker.stamp(&o1);
  assert!(EqualsChecker.check(&o2, &s).is_none() == (o1 == o2));
  let p1: Option<u8> = if kani::any() { Some(kani::any()) } else { None }; let p2: Option<u8> = if kani::any() { Some(kani::any()) } else { None };
  let s = EqualsChecker.stamp(&p1);
  assert!(EqualsChecker.check(&p2, &s).is_none() == (p1 == p2));
  let r1 = any_r(); let r2 = any_r();
  let s = EqualsChecker.stamp(&r1);
  assert!(EqualsChecker.check(&r2, &s).is_none() == (r1 == r2));
}
/// an output type whose `==` is NOT structural: two representations of one number are equal ("the user's ==")
#[derive(Clone, Debug)] enum Repr { Small(u8), Wide(u16) }
impl Repr { fn val(&self) -> u16 { match self { Repr::Small(x) => *x as u16, Repr::Wide(x) => *x } } }
impl PartialEq for Repr { fn eq(&self, o: &Self) -> bool { self.val() == o.val() } }
impl Eq for Repr {}
fn any_repr() -> Repr { if kani::any() { Repr::Small(kani::any()) } else { Repr::Wide(kani::any()) } }

#[kani::proof]
fn c12_equals_follows_the_users_eq() {
  let o1 = any_repr(); let o2 = any_repr();
  let s = EqualsChecker.stamp(&o1);
  assert!(EqualsChecker.check(&o2, &s).is_none() == (o1 == o2));
  assert!(EqualsChecker.check(&o1, &s).is_none());
  // ... also inside Ok / Err, for the two partial checkers
  let r1: Result<Repr, Repr> = if kani::any() { Ok(any_repr()) } else { Err(any_repr()) };
  let r2: Result<Repr, Repr> = if kani::any() { Ok(any_repr()) } else { Err(any_repr()) };
  let s = OkEqualsChecker.stamp(&r1);
  assert!(OkEqualsChecker.check(&r2, &s).is_none() == (match (&r1, &r2) { (Ok(x), Ok(y)) => x == y, (Err(_), Err(_)) => true, _ => false }));
  let s = ErrEqualsChecker.stamp(&r1);
  assert!(ErrEqualsChecker.check(&r2, &s).is_none() == (match (&r1, &r2) { (Err(x), Err(y)) => x == y, (Ok(_), Ok(_)) => true, _ => false }));
}
#[kani::proof]
fn c12_ok_equals() {
  let o1 = any_r(); let o2 = any_r();
  let s = OkEqualsChecker.stamp(&o1);
  assert!(OkEqualsChecker.check(&o2, &s).is_none() == rel_ok(&o1, &o2));
}
#[kani::proof]
fn c12_err_equals() {
  let o1 = any_r(); let o2 = any_r();
  let s = ErrEqualsChecker.stamp(&o1);
  assert!(ErrEqualsChecker.check(&o2, &s).is_none() == rel_err(&o1, &o2));
}
#[kani::proof]
fn c12_result_and_always() {
  let o1 = any_r(); let o2 = any_r();
  let s = ResultChecker.stamp(&o1);
  assert!(ResultChecker.check(&o2, &s).is_none() == (o1.is_err() == o2.is_err()));
  let s = AlwaysConsistent.stamp(&o1);
  assert!(AlwaysConsistent.check(&o2, &s).is_none());
}
#[kani::proof]
fn c12_through_object_safe_proxy() {
  let o1: u8 = kani::any(); let o2: u8 = kani::any();
  let c: &dyn OutputCheckerObj<u8> = &EqualsChecker;
  let s = c.stamp_obj(&o1);
  assert!(c.check_obj(&o2, s.as_ref()).is_none() == (o1 == o2));
  let r1 = any_r(); let r2 = any_r();
  let c: &dyn OutputCheckerObj<R> = &OkEqualsChecker;
  let s = c.stamp_obj(&r1);
  assert!(c.check_obj(&r2, s.as_ref()).is_none() == rel_ok(&r1, &r2));
  let c: &dyn OutputCheckerObj<R> = &ErrEqualsChecker;
  let s = c.stamp_obj(&r1);
  assert!(c.check_obj(&r2, s.as_ref()).is_none() == rel_err(&r1, &r2));
  let c: &dyn OutputCheckerObj<R> = &ResultChecker;
  let s = c.stamp_obj(&r1);
  assert!(c.check_obj(&r2, s.as_ref()).is_none() == (r1.is_err() == r2.is_err()));
}
