//! C15: two keys are the same exactly when they have the same concrete type and compare equal.
use crate::common::*;
use pie::trait_object::KeyObj;
use pie::verif_hooks::{AsAny, EqObj, HashObj, TaskObj};
use std::hash::Hash;
use std::rc::Rc;
use std::sync::Arc;

fn keq(a: &dyn KeyObj, b: &dyn KeyObj) -> bool { a == b }
fn teq(a: &dyn TaskObj, b: &dyn TaskObj) -> bool { a == b }

#[kani::proof]
fn c15_keyobj_same_type_iff_values_equal() {
  let a = A(kani::any()); let b = A(kani::any());
  assert!(keq(&a, &b) == (a == b));
  let c = (kani::any::<u8>(),); let d = (kani::any::<u8>(),);
  assert!(keq(&c, &d) == (c == d));
}

#[kani::proof]
fn c15_keyobj_different_types_never_equal() {
  let x: u8 = kani::any(); let y: u8 = kani::any();
  let a = A(x); let b = B(y); let t = (y,); let r = y;
  assert!(!keq(&a, &b) && !keq(&b, &a));
  assert!(!keq(&a, &t) && !keq(&t, &a));
  assert!(!keq(&a, &r) && !keq(&r, &a));
  assert!(!keq(&b, &t) && !keq(&t, &b));
}

#[kani::proof]
fn c15_zero_sized_keys_of_different_types_never_equal() {
  // identity is (concrete type, value) also when the values occupy no memory: references and boxes of different zero-sized types may
  // share one (dangling) address
  let (z1, z2) = (Z1, Z2);
  assert!(!keq(&z1, &z2) && !keq(&z2, &z1));
  assert!(keq(&z1, &Z1) && keq(&z2, &Z2));
  let b1: Box<dyn KeyObj> = Box::new(Z1); let b2: Box<dyn KeyObj> = Box::new(Z2);
  assert!(b1 != b2);
  assert!(b1 == (&Z1 as &dyn KeyObj).to_owned());
  assert!(!keq(b1.as_ref(), &z2) && !keq(&z1, b2.as_ref()));
}

#[kani::proof]
fn c15_keyobj_wrappers_are_different_types() {
  let x: u8 = kani::any(); let y: u8 = kani::any();
  let a = A(x); let ba = Box::new(A(y)); let ra = Rc::new(A(y)); let aa = Arc::new(A(y));
  assert!(!keq(&a, &ba) && !keq(&ba, &a));
  assert!(!keq(&a, &ra) && !keq(&ra, &a));
  assert!(!keq(&a, &aa) && !keq(&aa, &a));
  assert!(!keq(&ba, &ra) && !keq(&ra, &aa) && !keq(&aa, &ba));
  let bb = Box::new(A(x));
  assert!(keq(&ba, &bb) == (x == y));
}

#[kani::proof]
fn c15_boxed_keyobj_eq_and_clone() {
  let a = A(kani::any()); let b = A(kani::any()); let c = B(kani::any());
  let ka: Box<dyn KeyObj> = Box::new(a.clone()); let kb: Box<dyn KeyObj> = Box::new(b.clone()); let kc: Box<dyn KeyObj> = Box::new(c.clone());
  assert!((ka == kb) == (a == b));
  assert!(ka != kc);
  assert!((ka == *(&b as &dyn KeyObj)) == (a == b));          // PartialEq<dyn KeyObj> for Box<dyn KeyObj>: the HashMap lookup path
  let k2 = (&a as &dyn KeyObj).to_owned();
  assert!(k2 == ka);                                            // to_owned keeps the identity
  assert!(k2.as_ref().as_any().downcast_ref::<A>() == Some(&a));
  assert!(k2.as_ref().as_any().downcast_ref::<B>().is_none());
}

#[kani::proof]
fn c15_eq_any_never_equates_across_types() {
  let a = A(kani::any()); let b = B(kani::any()); let a2 = A(kani::any());
  assert!(!a.eq_any(b.as_any()));
  assert!(!b.eq_any(a.as_any()));
  assert!(a.eq_any(a2.as_any()) == (a == a2));
}

#[kani::proof]
fn c15_equal_keys_hash_alike_and_like_the_value() {
  let a = A(kani::any()); let b = A(kani::any());
  let mut ha = Rec::new(); let mut hb = Rec::new(); let mut hv = Rec::new();
  (&a as &dyn KeyObj).hash(&mut ha);
  (&b as &dyn KeyObj).hash(&mut hb);
  a.hash(&mut hv);
  assert!(same_stream(&ha, &hv));                               // the trait object feeds exactly the value's stream
  if keq(&a, &b) { assert!(same_stream(&ha, &hb)); }
  let mut ho = Rec::new();
  a.hash_obj(&mut ho);
  assert!(same_stream(&ho, &hv));
}

#[kani::proof]
fn c15_taskobj_identity() {
  let x: u8 = kani::any(); let y: u8 = kani::any();
  let a = A(x); let a2 = A(y); let b = B(y); let t = T1((y,));
  assert!(teq(&a, &a2) == (x == y));
  assert!(!teq(&a, &b) && !teq(&b, &a) && !teq(&a, &t) && !teq(&t, &b));
  let ta: Box<dyn TaskObj> = (&a as &dyn TaskObj).to_owned();
  let tb: Box<dyn TaskObj> = Box::new(b.clone());
  assert!(ta != tb);
  assert!((ta == *(&a2 as &dyn TaskObj)) == (x == y));          // HashMap<Box<dyn TaskObj>, _>::get(&dyn TaskObj) path
  assert!(keq(ta.as_key_obj(), &a));                            // as_key_obj keeps the identity
  assert!(!keq(ta.as_key_obj(), &b));
  let mut h1 = Rec::new(); let mut h2 = Rec::new();
  (&a as &dyn TaskObj).hash(&mut h1); a.hash(&mut h2);
  assert!(same_stream(&h1, &h2));
}

#[kani::proof]
fn c15_wrapped_tasks_are_distinct_tasks() {
  let x: u8 = kani::any(); let y: u8 = kani::any();
  let a = A(x); let ba = Box::new(A(y)); let ra = Rc::new(A(y)); let aa = Arc::new(A(y));
  assert!(!teq(&a, &ba) && !teq(&a, &ra) && !teq(&a, &aa) && !teq(&ba, &ra) && !teq(&ra, &aa));
}

// ---- C14: the trait-object key / value wrappers of the map resource -------------------------------------------------------------
use pie::resource::map::{MapKeyObjToObj, MapKeyToObj, MapValueObj};

/// a `MapKeyObjToObj` denotes the key it was built from, whichever of the four constructors built it: two of them are the same map
/// key exactly when the underlying keys have the same type and are equal, and equal keys hash alike
#[kani::proof]
fn c14_obj_keys_built_by_any_constructor_denote_the_same_key() {
  let x: u8 = kani::any(); let y: u8 = kani::any();
  let by_value = MapKeyObjToObj::from(A(x));
  let by_box: MapKeyObjToObj = Box::new(A(y)).into();
  let by_new = MapKeyObjToObj::new(Box::new(A(y)) as Box<dyn KeyObj>);
  let by_dyn: MapKeyObjToObj = (Box::new(A(y)) as Box<dyn KeyObj>).into();
  assert!((by_value == by_box) == (x == y));
  assert!((by_value == by_new) == (x == y));
  assert!((by_value == by_dyn) == (x == y));
  assert!(by_box == by_new && by_new == by_dyn && by_box == by_dyn);
  let other_type = MapKeyObjToObj::from(B(x));
  let other_boxed: MapKeyObjToObj = Box::new(B(x)).into();
  assert!(by_value != other_type && by_box != other_boxed && other_type == other_boxed);
  let (mut h1, mut h2, mut h3) = (Rec::new(), Rec::new(), Rec::new());
  by_value.hash(&mut h1); by_box.hash(&mut h2); A(x).hash(&mut h3);
  assert!(same_stream(&h1, &h3));
  if x == y { assert!(same_stream(&h1, &h2)); }
  // the typed wrapper is the key itself
  assert!((MapKeyToObj::new(A(x)) == MapKeyToObj::from(A(y))) == (x == y));
}

/// boxed map values compare by type and value, and a clone is equal to its original
#[kani::proof]
fn c14_obj_values_compare_by_type_and_value() {
  let x: u8 = kani::any(); let y: u8 = kani::any();
  let a: Box<dyn MapValueObj> = Box::new(A(x)); let a2: Box<dyn MapValueObj> = Box::new(A(y)); let b: Box<dyn MapValueObj> = Box::new(B(x));
  assert!((a.as_ref() == a2.as_ref()) == (x == y));
  assert!(a.as_ref() != b.as_ref() && b.as_ref() != a.as_ref());
  let c = a.clone();
  assert!(c.as_ref() == a.as_ref());
}
