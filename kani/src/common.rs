use pie::{Context, Task};
use std::hash::Hasher;

/// key families with identical representation, hash stream and debug text
#[derive(Clone, PartialEq, Eq, Hash, Debug)] pub struct A(pub u8);
#[derive(Clone, PartialEq, Eq, Hash)] pub struct B(pub u8);
impl std::fmt::Debug for B { fn fmt(&self, f: &mut std::fmt::Formatter<'_>) -> std::fmt::Result { f.write_str("A") } }

impl Task for A { type Output = u8; fn execute<C: Context>(&self, _c: &mut C) -> u8 { self.0 } }
impl Task for B { type Output = u8; fn execute<C: Context>(&self, _c: &mut C) -> u8 { self.0 } }
#[derive(Clone, PartialEq, Eq, Hash, Debug)] pub struct T1(pub (u8,));
impl Task for T1 { type Output = u8; fn execute<C: Context>(&self, _c: &mut C) -> u8 { (self.0).0 } }

/// field-less (zero-sized) key types: every value, boxed or referenced, may live at the same dangling address
#[derive(Clone, PartialEq, Eq, Hash, Debug)] pub struct Z1;
#[derive(Clone, PartialEq, Eq, Hash, Debug)] pub struct Z2;

/// a hasher that records the byte stream it is fed (no SipHash in the solver)
pub struct Rec { pub buf: [u8; 24], pub len: usize }
impl Rec { pub fn new() -> Self { Rec { buf: [0; 24], len: 0 } } }
impl Hasher for Rec {
  fn finish(&self) -> u64 { 0 }
  fn write(&mut self, bytes: &[u8]) {
    let mut i = 0;
    while i < bytes.len() { if self.len < 24 { self.buf[self.len] = bytes[i]; self.len += 1; } i += 1; }
  }
}
pub fn same_stream(a: &Rec, b: &Rec) -> bool {
  if a.len != b.len { return false; }
  let mut i = 0;
  while i < 24 { if i < a.len && a.buf[i] != b.buf[i] { return false; } i += 1; }
  true
}
