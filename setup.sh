#!/bin/sh
# Offline setup: sanity-check the tools and pre-compile the Kani harness crate against /repo (build output under /verif/.build).
set -e
cd "$(dirname "$0")"
python3 -c "import sys; sys.path.insert(0,'.'); from vlib import weave, verus, kani"
verus --version >/dev/null
cp /repo/Cargo.lock kani/Cargo.lock
cd kani
CARGO_NET_OFFLINE=true CARGO_TARGET_DIR=/verif/.build/kani-target RUSTFLAGS="--cfg gohla_pie_verif" \
  cargo kani -Z function-contracts -Z stubbing --output-format terse --harness c15_eq_any_never_equates_across_types >/dev/null 2>&1 || true
echo setup-ok
