"""Minimal Rust lexer + item locator used by the extractor.

It does not parse Rust; it tokenises (so that braces in strings, chars, comments and
lifetimes are never miscounted) and locates items by name:

  struct X / enum X / trait X / type X / const X / fn x         (top level or inside `mod m` -> m::x)
  impl X::method            inherent impl of X (all inherent impl blocks of X form one namespace)
  impl Tr for X::method     trait impl

For each item: byte range of the item *without* its leading doc comments and attributes
(T0 of DESIGN.md) and, for fns, the position of the body's opening brace.
"""
import re
from dataclasses import dataclass, field

@dataclass
class Tok:
    kind: str      # ident, punct, str, char, lifetime, num, comment
    text: str
    start: int
    end: int

_ident = re.compile(r'[A-Za-z_][A-Za-z0-9_]*')
_num = re.compile(r'[0-9][A-Za-z0-9_\.]*')

def lex(src: str, keep_comments=False):
    toks = []
    i, n = 0, len(src)
    while i < n:
        c = src[i]
        if c.isspace():
            i += 1; continue
        if src.startswith('//', i):
            j = src.find('\n', i)
            if j < 0: j = n
            if keep_comments: toks.append(Tok('comment', src[i:j], i, j))
            i = j; continue
        if src.startswith('/*', i):
            depth, j = 1, i + 2
            while j < n and depth > 0:
                if src.startswith('/*', j): depth += 1; j += 2
                elif src.startswith('*/', j): depth -= 1; j += 2
                else: j += 1
            if keep_comments: toks.append(Tok('comment', src[i:j], i, j))
            i = j; continue
        # raw strings r"..." r#"..."#, byte strings b"..", br#".."#
        m = re.match(r'(b?r)(#*)"', src[i:i+40])
        if m:
            hashes = m.group(2)
            close = '"' + hashes
            j = src.find(close, i + len(m.group(0)))
            if j < 0: raise ValueError('unterminated raw string at %d' % i)
            j += len(close)
            toks.append(Tok('str', src[i:j], i, j)); i = j; continue
        if c == '"' or (c == 'b' and i + 1 < n and src[i+1] == '"'):
            j = i + (2 if c == 'b' else 1)
            while j < n and src[j] != '"':
                if src[j] == '\\': j += 1
                j += 1
            j += 1
            toks.append(Tok('str', src[i:j], i, j)); i = j; continue
        if c == "'" or (c == 'b' and i + 1 < n and src[i+1] == "'"):
            k = i + (1 if c == 'b' else 0)
            # char literal: '\x' ... or 'c' ; lifetime: 'ident not followed by '
            if k + 1 < n and src[k+1] == '\\':
                j = k + 2
                while j < n and src[j] != "'": j += 1
                j += 1
                toks.append(Tok('char', src[i:j], i, j)); i = j; continue
            if k + 2 < n and src[k+2] == "'":
                j = k + 3
                toks.append(Tok('char', src[i:j], i, j)); i = j; continue
            m = _ident.match(src, k + 1)
            if m:
                toks.append(Tok('lifetime', src[i:m.end()], i, m.end())); i = m.end(); continue
            # multi-byte char literal
            j = src.find("'", k + 1)
            toks.append(Tok('char', src[i:j+1], i, j + 1)); i = j + 1; continue
        m = _ident.match(src, i)
        if m:
            toks.append(Tok('ident', m.group(0), i, m.end())); i = m.end(); continue
        m = _num.match(src, i)
        if m:
            toks.append(Tok('num', m.group(0), i, m.end())); i = m.end(); continue
        if src.startswith('->', i) or src.startswith('=>', i) or src.startswith('::', i):
            toks.append(Tok('punct', src[i:i+2], i, i + 2)); i += 2; continue
        toks.append(Tok('punct', c, i, i + 1)); i += 1
    return toks

OPEN = {'(': ')', '[': ']', '{': '}'}
CLOSE = {')', ']', '}'}

def match_brace(toks, k):
    """toks[k] is an opening bracket; return index of its partner."""
    depth = 0
    for j in range(k, len(toks)):
        t = toks[j]
        if t.kind == 'punct':
            if t.text in OPEN: depth += 1
            elif t.text in CLOSE:
                depth -= 1
                if depth == 0: return j
    raise ValueError('unbalanced bracket at offset %d' % toks[k].start)

@dataclass
class Item:
    path: str
    kind: str            # fn, struct, enum, trait, type, const, impl_header
    start: int           # first byte of the item proper (visibility / keyword), attributes and docs excluded
    end: int             # one past the last byte
    body_open: int = -1  # offset of '{' opening a fn body (or -1)
    line: int = 0
    impl_header: str = ''

def _strip_generics(s: str) -> str:
    out, depth = [], 0
    i = 0
    while i < len(s):
        c = s[i]
        if c == '<': depth += 1
        elif c == '>' and (i == 0 or s[i-1] != '-'):
            depth -= 1
        elif depth == 0: out.append(c)
        i += 1
    return ''.join(out)

def _impl_name(header: str) -> str:
    # header: text between 'impl' and '{'
    h = header
    # drop leading generics of impl<...>
    h = h.strip()
    if h.startswith('<'):
        depth = 0
        for i, c in enumerate(h):
            if c == '<': depth += 1
            elif c == '>' and h[i-1] != '-':
                depth -= 1
                if depth == 0:
                    h = h[i+1:]; break
    h = re.split(r'\bwhere\b', h)[0]
    h = _strip_generics(h)
    h = re.sub(r"'\w+", '', h)
    h = re.sub(r'[&\s]+', ' ', h).strip()
    h = h.replace('dyn ', 'dyn_').replace('mut ', '')
    return h

ITEM_KW = {'struct', 'enum', 'trait', 'type', 'const', 'static', 'fn', 'impl', 'mod', 'use', 'macro_rules', 'union', 'extern'}
MODS = {'pub', 'unsafe', 'async', 'const', 'default', 'extern'}

def find_items(src: str):
    """Return dict path -> Item for all items of the file (test modules included under their mod path)."""
    toks = lex(src)
    items = {}
    counts = {}
    line_starts = [0]
    for m in re.finditer('\n', src): line_starts.append(m.end())
    import bisect
    def line_of(off): return bisect.bisect_right(line_starts, off)

    def add(path, it):
        if path in items:
            counts[path] = counts.get(path, 1) + 1
            path = '%s#%d' % (path, counts[path])
        it.path = path
        it.line = line_of(it.start)
        items[path] = it

    def scan(lo, hi, prefix, in_impl=None, impl_header=''):
        k = lo
        while k < hi:
            t = toks[k]
            # skip attributes
            if t.kind == 'punct' and t.text == '#':
                j = k + 1
                if toks[j].text == '!': j += 1
                if toks[j].text == '[':
                    k = match_brace(toks, j) + 1; continue
            # item start: collect modifiers
            s = k
            j = k
            while j < hi and toks[j].kind == 'ident' and toks[j].text in MODS:
                if toks[j].text == 'pub' and toks[j+1].text == '(':
                    j = match_brace(toks, j + 1) + 1
                elif toks[j].text == 'extern' and toks[j+1].kind == 'str':
                    j += 2
                elif toks[j].text == 'const' and toks[j+1].kind == 'ident' and toks[j+1].text not in ('fn', 'unsafe', 'async', 'extern'):
                    break
                else: j += 1
            if j >= hi: break
            kw = toks[j]
            if kw.kind != 'ident' or kw.text not in ITEM_KW:
                k += 1; continue
            if kw.text == 'fn':
                name = toks[j+1].text
                # find body open brace or ';'
                d = 0; b = j + 2
                while True:
                    tt = toks[b]
                    if tt.kind == 'punct':
                        if tt.text in '([': d += 1
                        elif tt.text in ')]': d -= 1
                        elif tt.text == '{' and d == 0: break
                        elif tt.text == ';' and d == 0: break
                    b += 1
                if toks[b].text == ';':
                    e = b
                    it = Item('', 'fn', toks[s].start, toks[e].end, -1)
                else:
                    e = match_brace(toks, b)
                    it = Item('', 'fn', toks[s].start, toks[e].end, toks[b].start)
                it.impl_header = impl_header
                p = (in_impl + '::' + name) if in_impl else (prefix + name)
                add(p, it)
                k = e + 1; continue
            if kw.text in ('struct', 'enum', 'union', 'trait', 'type', 'const', 'static'):
                name = toks[j+1].text
                b = j + 2; d = 0
                while True:
                    tt = toks[b]
                    if tt.kind == 'punct':
                        if tt.text in '([': d += 1
                        elif tt.text in ')]': d -= 1
                        elif tt.text == '{' and d == 0: break
                        elif tt.text == ';' and d == 0: break
                    b += 1
                if toks[b].text == '{':
                    e = match_brace(toks, b)
                    # tuple/unit struct handled by ';' branch; struct {..} has no trailing ';'
                else:
                    e = b
                kind = kw.text
                p = (in_impl + '::' + name) if in_impl else (prefix + name)
                add(kind + ' ' + p, Item('', kind, toks[s].start, toks[e].end, toks[b].start if toks[b].text == '{' else -1))
                if kw.text == 'trait' and toks[b].text == '{':
                    scan(b + 1, e, prefix, in_impl='trait ' + prefix + name)
                k = e + 1; continue
            if kw.text == 'impl':
                b = j + 1; d = 0
                while not (toks[b].kind == 'punct' and toks[b].text == '{' and d == 0):
                    if toks[b].kind == 'punct':
                        if toks[b].text in '([': d += 1
                        elif toks[b].text in ')]': d -= 1
                    b += 1
                e = match_brace(toks, b)
                header = src[toks[j].end:toks[b].start]
                nm = 'impl ' + prefix + _impl_name(header)
                scan(b + 1, e, prefix, in_impl=nm, impl_header=src[toks[s].start:toks[b].start].strip())
                k = e + 1; continue
            if kw.text == 'mod':
                name = toks[j+1].text
                if toks[j+2].text == '{':
                    e = match_brace(toks, j + 2)
                    scan(j + 3, e, prefix + name + '::')
                    k = e + 1; continue
                k = j + 3; continue
            if kw.text == 'macro_rules':
                # macro_rules! name { ... }
                b = j + 1
                while toks[b].text not in OPEN: b += 1
                e = match_brace(toks, b)
                add('macro ' + prefix + toks[j+2].text, Item('', 'macro', toks[s].start, toks[e].end))
                k = e + 1; continue
            # use / extern crate: skip to ';'
            b = j
            while toks[b].text != ';':
                if toks[b].text in OPEN: b = match_brace(toks, b)
                b += 1
            k = b + 1
    scan(0, len(toks), '')
    return items

def fn_signature_parts(text: str):
    """For the text of a fn item: (offset of body '{', (ret_start, ret_end) of the return type or None)."""
    toks = lex(text)
    d = 0; arrow = None; where = None; body = None
    for i, t in enumerate(toks):
        if t.kind == 'punct':
            if t.text in '([': d += 1
            elif t.text in ')]': d -= 1
            elif t.text == '->' and d == 0 and arrow is None: arrow = t
            elif t.text == '{' and d == 0: body = t; break
            elif t.text == ';' and d == 0: body = t; break
        elif t.kind == 'ident' and t.text == 'where' and d == 0 and where is None: where = t
    ret = None
    if arrow is not None:
        stop = where.start if (where is not None and where.start > arrow.start) else body.start
        ret = (arrow.end, stop)
    return body.start, ret

if __name__ == '__main__':
    import sys, json
    src = open(sys.argv[1]).read()
    for p, it in find_items(src).items():
        print('%-70s %s line %d  [%d,%d)' % (p, it.kind, it.line, it.start, it.end))
