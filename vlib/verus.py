"""Run Verus on a generated unit and map its diagnostics to named obligations."""
import json, os, re, subprocess, time, copy
from . import weave

VERUS = os.environ.get('VERUS', 'verus')
DEFINITE = ('postcondition not satisfied', 'precondition not satisfied', 'assertion failed', 'invariant not satisfied',
            'loop invariant not preserved', 'invariant not satisfied at end of loop body', 'invariant not satisfied before loop',
            'decreases not satisfied', 'possible arithmetic underflow/overflow', 'possible division by zero',
            'index out of bounds', 'unreachable', 'requires not satisfied', 'could not prove termination',
            'possible bit shift underflow/overflow', 'constructor of a shrunk', 'failed this postcondition',
            'cannot show invariant', 'cannot prove', 'unable to prove')
RESOURCE = ('Resource limit (rlimit) exceeded', 'resource limit', 'timed out', 'rlimit')

def run_verus(gen_path, edition, extra_args, seed=None, rlimit_mult=1, timeout=1800):
    args = [VERUS, os.path.basename(gen_path), '--edition=' + edition, '--triggers-mode', 'silent', '--output-json', '--time',
            '--error-format=json', '--multiple-errors', '50']
    ea = list(extra_args)
    if rlimit_mult != 1:
        for i, a in enumerate(ea):
            if a == '--rlimit': ea[i + 1] = str(int(float(ea[i + 1]) * rlimit_mult))
        if '--rlimit' not in ea: ea += ['--rlimit', str(10 * rlimit_mult)]
    args += ea
    if seed is not None:
        args += ['--smt-option', 'smt.random_seed=%d' % seed, '--smt-option', 'sat.random_seed=%d' % seed]
    t0 = time.time()
    try:
        p = subprocess.run(args, cwd=os.path.dirname(gen_path), capture_output=True, text=True, timeout=timeout)
        out, err, rc = p.stdout, p.stderr, p.returncode
    except subprocess.TimeoutExpired as e:
        out, err, rc = (e.stdout or b'').decode() if isinstance(e.stdout, bytes) else (e.stdout or ''), 'TIMEOUT', -9
    wall = time.time() - t0
    res = {'cmd': ' '.join(args), 'rc': rc, 'wall_s': round(wall, 2), 'json': None, 'diags': [], 'raw_err': ''}
    try:
        res['json'] = json.loads(out)
    except Exception:
        res['raw_err'] = (out[-2000:] + '\n' + err[-4000:])
    for line in err.split('\n'):
        line = line.strip()
        if line.startswith('{'):
            try:
                d = json.loads(line)
            except Exception:
                continue
            if d.get('$message_type') == 'diagnostic' or 'message' in d:
                res['diags'].append(d)
        elif line and not res['json']:
            res['raw_err'] += line + '\n'
    return res

def fn_spans(gen_text):
    """line -> enclosing fn name (last `fn NAME` seen), cheap but sufficient for attribution."""
    rx = re.compile(r'^\s*(?:pub(?:\([a-z]+\))?\s+)?(?:(?:open|closed|uninterp)\s+)?(?:(?:spec|proof|exec)\s+)?(?:const\s+)?fn\s+(\w+)')
    cur = None; m = {}
    for i, l in enumerate(gen_text.split('\n'), 1):
        mm = rx.match(l)
        if mm: cur = mm.group(1)
        m[i] = cur
    return m

def classify(meta, res, gen_text):
    """-> dict(status, failed_tags{tag:[diag]}, untagged[(item, diag)], infra[(msg)], per_fn{...})"""
    origins = meta['origins']
    lines = gen_text.split('\n')
    tag_at = {}
    for tag, lns in meta['obligations'].items():
        for ln in lns: tag_at.setdefault(ln, []).append(tag)
    # tags per item (function)
    item_tags = {}
    for ln, tags in tag_at.items():
        o = origins[ln - 1]
        if o[0] in ('ann', 'code', 'code*'):
            pass
    # origin of each line -> item path (for ann lines we need the item: recompute by scanning)
    line_item = {}
    cur_item = None
    # items' annotation lines carry vc line numbers only; derive item by nearest code line
    for i, o in enumerate(origins, 1):
        if o[0] in ('code', 'code*'): cur_item = o[1]; line_item[i] = cur_item
        elif o[0] == 'raw': cur_item = None
    # second pass: ann lines belong to the next code line's item (chunks precede code) or previous if trailing
    nxt = None
    for i in range(len(origins), 0, -1):
        o = origins[i - 1]
        if o[0] in ('code', 'code*'): nxt = o[1]
        elif o[0] == 'raw': nxt = None
        elif o[0] == 'ann':
            line_item[i] = nxt
    prev = None
    for i, o in enumerate(origins, 1):
        if o[0] in ('code', 'code*'): prev = o[1]
        elif o[0] == 'raw': prev = None
        elif o[0] == 'ann' and line_item.get(i) is None: line_item[i] = prev
    for ln, tags in tag_at.items():
        it = line_item.get(ln)
        if it: item_tags.setdefault(it, set()).update(tags)
    fnmap = fn_spans(gen_text)
    out = {'failed_tags': {}, 'untagged': [], 'infra': [], 'resource': [], 'compile_errors': []}
    j = res['json']
    # once Verus reports `verified: N` it has passed type/mode checking: every error diagnostic from then on is a failed proof obligation
    vr0 = (j or {}).get('verification-results') or {}
    # (on a rustc or VIR error Verus stops first and reports verified: 0, errors: 0)
    ran_verification = (vr0.get('verified', 0) + vr0.get('errors', 0) > 0) and not vr0.get('encountered-vir-error')
    for d in res['diags']:
        if d.get('level') != 'error': continue
        msg = d.get('message', '')
        if msg.startswith('aborting due to'): continue
        span_lines = sorted({s['line_start'] for s in d.get('spans', []) if s.get('file_name', '').endswith('.rs') and not s.get('file_name', '').startswith('/')})
        for s in d.get('spans', []):
            # include multi-line spans fully (clauses spanning several lines carry the tag on the last line)
            if s.get('file_name', '').startswith('/'): continue
            for ln in range(s['line_start'], s['line_end'] + 1): span_lines.append(ln)
        span_lines = sorted(set(span_lines))
        labels = [(s.get('label') or '') for s in d.get('spans', [])]
        rec = {'message': msg, 'lines': span_lines[:12], 'labels': labels,
               'text': [lines[l - 1].strip()[:200] for l in span_lines[:4] if 0 < l <= len(lines)]}
        rustc_code = (d.get('code') or {}).get('code')
        definite = (any(k in msg for k in DEFINITE) or (ran_verification and not any(k in msg for k in RESOURCE))) and not rustc_code
        resource = any(k in msg for k in RESOURCE)
        items_hit = {line_item.get(l) for l in span_lines if line_item.get(l)}
        fns_hit = {fnmap.get(l) for l in span_lines}
        rec['items'] = sorted(items_hit); rec['fns'] = sorted(f for f in fns_hit if f)
        if resource:
            out['resource'].append(rec); continue
        if not definite:
            out['compile_errors'].append(rec); continue
        # tags on the failing clause lines: prefer the span labelled as the failed clause
        tags = []
        for s in d.get('spans', []):
            lab = (s.get('label') or '')
            if 'failed' in lab or s.get('is_primary'):
                for ln in range(s['line_start'], s['line_end'] + 1):
                    tags += tag_at.get(ln, [])
        tags = sorted(set(tags))
        if tags:
            for t in tags: out['failed_tags'].setdefault(t, []).append(rec)
        elif items_hit:
            for it in items_hit: out['untagged'].append((it, rec))
        else:
            out['infra'].append(rec)
    out['item_tags'] = {k: sorted(v) for k, v in item_tags.items()}
    vr = (j or {}).get('verification-results') or {}
    out['verified'] = vr.get('verified', 0)
    out['errors'] = vr.get('errors', -1)
    out['success'] = bool(vr.get('success'))
    if j and not vr.get('success') and 'verified' not in vr and not out['compile_errors']:
        out['compile_errors'].append({'message': 'verus stopped before verification (front-end error)', 'lines': [], 'labels': [], 'text': [], 'items': [], 'fns': []})
    fb = []
    if j:
        try:
            for m in j['times-ms']['smt']['smt-run-module-times']:
                fb += m['function-breakdown']
        except Exception:
            pass
    out['functions'] = fb
    tm = (j or {}).get('times-ms') or {}
    out['smt_ms'] = (tm.get('smt') or {}).get('total')
    out['total_ms'] = tm.get('total')
    out['verus_version'] = j['verus'].get('version') if j and 'verus' in j else None
    return out

def vacuity_twin(meta, gen_text, mode):
    """Insert `proof { assert(false); }` at every item fn entry (mode='entry') or loop body start (mode='loop').
    Returns (text, [(line, item)]) -- each inserted assertion must FAIL; one that is proved means a contradictory
    precondition / invariant (or an entry that is unreachable)."""
    origins = meta['origins']; lines = gen_text.split('\n')
    kinds = {it['item']: it.get('kind') for it in meta['items']}
    out = []; marks = []
    last_code = {}; done_entry = set()
    for idx in range(len(origins)):
        o = origins[idx]; t = lines[idx]
        out.append(t)
        if o[0] in ('code', 'code*') and kinds.get(o[1]) == 'fn':
            item = o[1]
            if t.strip() == '{':
                pc = last_code.get(item, '')
                is_loop = bool(re.match(r"^\s*(?:'\w+\s*:\s*)?(for|while|loop)\b", pc))
                if mode == 'entry' and item not in done_entry:
                    out.append('proof { assert(false); } // VACUITY-PROBE entry ' + item); marks.append((len(out), item))
                elif mode == 'loop' and is_loop and item in done_entry:
                    out.append('proof { assert(false); } // VACUITY-PROBE loop ' + item); marks.append((len(out), item))
                done_entry.add(item)
            last_code[item] = t
    return '\n'.join(out), marks
