"""Bounded stand-ins and concrete counterexample search on the real crates (replay/: path dependency on /repo/graph).
NOT a proof: the bound is recorded in the evidence and the result is never added to `discharged`."""
import os, subprocess, json, shutil, time

def _build(here, repo):
    rdir = os.path.join(here, 'replay')
    try:
        shutil.copy(os.path.join(repo, 'Cargo.lock'), os.path.join(rdir, 'Cargo.lock'))
    except OSError:
        pass
    env = dict(os.environ, CARGO_NET_OFFLINE='true', CARGO_TARGET_DIR=os.path.join(here, '.build', 'replay-target'))
    p = subprocess.run(['cargo', 'build', '--release', '--offline', '-q'], cwd=rdir, env=env, capture_output=True, text=True, timeout=1200)
    if p.returncode != 0:
        return None, (p.stderr or p.stdout)[-800:]
    return os.path.join(here, '.build', 'replay-target', 'release', 'pie_replay'), ''

def _run(binp, args, timeout=1800):
    p = subprocess.run([binp] + args, capture_output=True, text=True, timeout=timeout)
    recs = []
    for l in p.stdout.split('\n'):
        l = l.strip()
        if l.startswith('{'):
            try: recs.append(json.loads(l))
            except Exception: pass
    return p.returncode, recs, p.stderr[-400:]

GRAPH_BOUNDS = {'quick': ['graph', '--k', '3', '--l', '4', '--random', '4000', '--len', '14'],
                'thorough': ['graph', '--k', '4', '--l', '4', '--random', '60000', '--len', '18']}

# graph-level obligations that other properties rest on (a concrete failure of one of them is a failure of that property's clause)
ALSO = {
    'C07': ('C10.add_edge.cycle_rejected_exactly_when_dst_reaches_src', 'C10.bounded.every_edge_increases_rank', 'C11.contains_transitive_edge.exact'),
    'C05': ('C11.contains_transitive_edge.exact',),
    'C06': ('C11.contains_transitive_edge.exact',),
    'C02': ('C11.bounded.get_outgoing_edges_in_insertion_order_with_data', 'C11.bounded.get_outgoing_edge_data', 'C11.add_edge.existing_edge_reported'),
    'C08': ('C11.remove_outgoing.returns_data_in_order', 'C11.bounded.get_outgoing_edge_data', 'C11.bounded.get_outgoing_edges_in_insertion_order_with_data'),
    'C04': ('C11.topo_cmp.is_rank_order', 'C10.bounded.every_edge_increases_rank', 'C11.contains_transitive_edge.exact'),
    'C16': ('C10.bounded.ranks_bijection_onto_1_n', 'C11.bounded.get_outgoing_edges_in_insertion_order_with_data', 'C11.bounded.get_incoming_edges_in_insertion_order_with_data'),
}

def run(here, repo, pid, names, tier, seed):
    """names: ['graph'] -> bounded enumeration of the graph crate; violations whose property == pid are reported."""
    out = {'report': {}, 'undecided': [], 'violations': []}
    binp, err = _build(here, repo)
    if binp is None:
        out['undecided'].append('bounded stand-in does not build against the current tree: ' + err); return out
    for name in names:
        if name != 'graph': continue
        t0 = time.time()
        args = GRAPH_BOUNDS['thorough' if tier == 'thorough' else 'quick'] + ['--seed', str(seed or 1)]
        try:
            rc, recs, err = _run(binp, args)
        except subprocess.TimeoutExpired:
            out['undecided'].append('bounded stand-in timed out'); continue
        summ = [r for r in recs if r.get('summary')]
        vio = [r for r in recs if r.get('violation')]
        out['report'][name] = {'label': 'bounded (not a proof)', 'bound': ' '.join(args), 'summary': summ[0] if summ else None,
                               'violations_found': len(vio), 'wall_s': round(time.time() - t0, 1),
                               'stands_in_for': 'R6 adapter-chain getters (get_incoming/outgoing_*, iter_unsorted, descendants constructor) and cross-check of the contracts'}
        if not summ and not vio:
            out['undecided'].append('bounded stand-in produced no summary: ' + err)
        for r in vio:
            if r['property'] == pid or r['obligation'] in ALSO.get(pid, ()):
                out['violations'].append({'obligation': r['obligation'], 'unit': 'bounded:graph', 'backend': 'bounded enumeration of the real crate',
                                          'diagnostics': [{'message': r['what'], 'at': [json.dumps(r['ops'])], 'gen_lines': []}],
                                          'concrete_input': {'engine': 'graph', 'ops': r['ops'], 'what': r['what']}, 'site': json.dumps(r['ops'])})
    return out

def search_counterexample(here, repo, pid, obligation):
    """When a Verus obligation of the graph unit fails: look for a concrete failing operation sequence on the real crate."""
    if not (obligation.split('.')[0] in ('C10', 'C11', 'C07', 'C16', 'C02')): return None
    binp, err = _build(here, repo)
    if binp is None: return None
    try:
        rc, recs, err = _run(binp, GRAPH_BOUNDS['quick'] + ['--seed', '1'], timeout=900)
    except subprocess.TimeoutExpired:
        return None
    vio = [r for r in recs if r.get('violation')]
    if not vio: return None
    r = vio[0]
    return {'engine': 'graph', 'ops': r['ops'], 'what': r['what'], 'found_for': r['obligation']}

def replay_case(here, repo, pid, case):
    if case.get('engine') != 'graph': return True, 'no replay engine for this case'
    binp, err = _build(here, repo)
    if binp is None: return True, 'replay binary does not build: ' + err
    rc, recs, err = _run(binp, ['replay', json.dumps(case['ops'], separators=(',', ':'))])
    return rc == 0, json.dumps(recs)
