"""Bounded stand-ins and concrete counterexample search on the real crates (replay/: path dependency on /repo/graph).
NOT a proof: the bound is recorded in the evidence and the result is never added to `discharged`."""
import os, subprocess, json, shutil, time

def _build(here, repo):
    rdir = os.path.join(here, 'replay')
    try:
        shutil.copy(os.path.join(repo, 'Cargo.lock'), os.path.join(rdir, 'Cargo.lock'))
    except OSError:
        pass
    env = dict(os.environ, CARGO_NET_OFFLINE='true', CARGO_TARGET_DIR=os.path.join(here, '.build', 'replay-target'))
    p = subprocess.run(['cargo', 'build', '--release', '--offline', '-q'], cwd=rdir, env=env, capture_output=True, text=True, timeout=1200)
    if p.returncode != 0:
        return None, (p.stderr or p.stdout)[-800:]
    return os.path.join(here, '.build', 'replay-target', 'release', 'pie_replay'), ''

def _run(binp, args, timeout=1800):
    p = subprocess.run([binp] + args, capture_output=True, text=True, timeout=timeout)
    recs = []
    for l in p.stdout.split('\n'):
        l = l.strip()
        if l.startswith('{'):
            try: recs.append(json.loads(l))
            except Exception: pass
    return p.returncode, recs, p.stderr[-400:]

PIE_BOUNDS = {'quick': ['pie', '--programs', '20000', '--hist', '10'],
              'thorough': ['pie', '--programs', '250000', '--hist', '14']}
# the validation-trace obligations of the pie engine rest on three properties at once (C02: order + only-if-inconsistent,
# C08: the dependencies held are those of the latest execution, C09: each decided by its own checker); a trace that breaks
# one of these clauses cannot, from outside, be told apart from one that breaks the neighbouring clause
TRACE = ('C09.bounded.every_dependency_is_decided_by_its_own_checker', 'C02.bounded.dependencies_validated_in_creation_order',
         'C08.bounded.validated_dependencies_are_those_of_the_latest_execution', 'C09.bounded.check_uses_checker_and_stamp_of_the_dependency')
PIE_ALSO = {
    'C02': TRACE,
    'C08': TRACE + ('C02.bounded.executes_only_what_a_from_scratch_build_executes', 'C02.bounded.requiring_again_executes_nothing', 'C09.bounded.write_validates_every_reader'),
    'C09': TRACE + ('C02.bounded.executed_only_if_a_dependency_is_inconsistent',),
    # the stamp slot of an end event disagrees with what the task saw: the dependency's stamp is wrong (C09) or the event misreports it (C17)
    'C17': ('C09.bounded.stamp_is_what_the_task_saw',),
    'C04': ('C09.bounded.inconsistent_dependency_schedules_its_task', 'C18.bounded.failed_check_schedules_the_task'),
    'C16': (),
    # the same resource looked up under another identity gets another node: its readers are then not found when it is written
    'C15': ('C09.bounded.write_validates_every_reader', 'C09.bounded.reported_change_validates_every_reader_and_writer'),
}
FS_BOUNDS = {'quick': ['fs'], 'thorough': ['fs']}
MAP_BOUNDS = {'quick': ['map', '--cases', '20000', '--len', '14'], 'thorough': ['map', '--cases', '400000', '--len', '24']}
GRAPH_BOUNDS = {'quick': ['graph', '--k', '3', '--l', '4', '--random', '4000', '--len', '14'],
                'thorough': ['graph', '--k', '4', '--l', '4', '--random', '60000', '--len', '18']}

# graph-level obligations that other properties rest on (a concrete failure of one of them is a failure of that property's clause)
ALSO = {
    # a panic of the real crate means the redundant encodings of the edge set disagree: it concerns both graph properties
    'C10': ('C11.bounded.query_does_not_panic',),
    'C11': ('C10.bounded.operation_does_not_panic',),
    'C07': ('C10.bounded.operation_does_not_panic', 'C11.bounded.query_does_not_panic', 'C10.add_edge.cycle_rejected_exactly_when_dst_reaches_src', 'C10.bounded.every_edge_increases_rank', 'C11.contains_transitive_edge.exact'),
    'C05': ('C11.contains_transitive_edge.exact',),
    'C06': ('C11.contains_transitive_edge.exact',),
    'C02': ('C11.bounded.get_outgoing_edges_in_insertion_order_with_data', 'C11.bounded.get_outgoing_edge_data', 'C11.add_edge.existing_edge_reported'),
    'C08': ('C11.remove_outgoing.returns_data_in_order', 'C11.bounded.get_outgoing_edge_data', 'C11.bounded.get_outgoing_edges_in_insertion_order_with_data'),
    'C04': ('C11.topo_cmp.is_rank_order', 'C10.bounded.every_edge_increases_rank', 'C11.contains_transitive_edge.exact'),
    'C16': ('C10.bounded.ranks_bijection_onto_1_n', 'C11.bounded.get_outgoing_edges_in_insertion_order_with_data', 'C11.bounded.get_incoming_edges_in_insertion_order_with_data'),
}

def _pie_case(r):
    return {'engine': r.get('engine', 'pie'), 'rerun': r['rerun'], 'what': r['what'], 'case': r.get('case', '')}

def run(here, repo, pid, names, tier, seed):
    """names: 'graph' -> bounded enumeration of the graph crate; 'pie' -> bounded exploration of the pie crate through its
    public API.  Violations whose property == pid (or whose obligation the property rests on) are reported."""
    out = {'report': {}, 'undecided': [], 'violations': [], 'aux': []}
    binp, err = _build(here, repo)
    if binp is None:
        out['undecided'].append('bounded stand-in does not build against the current tree: ' + err); return out
    for name in names:
        if name not in ('graph', 'pie', 'fs', 'map'): continue
        t0 = time.time()
        bounds = {'graph': GRAPH_BOUNDS, 'pie': PIE_BOUNDS, 'fs': FS_BOUNDS, 'map': MAP_BOUNDS}[name]
        args = bounds['thorough' if tier == 'thorough' else 'quick'] + ['--seed', str(seed or 1)]
        try:
            rc, recs, err = _run(binp, args)
        except subprocess.TimeoutExpired:
            out['undecided'].append('bounded stand-in timed out'); continue
        summ = [r for r in recs if r.get('summary')]
        vio = [r for r in recs if r.get('violation')]
        out['report'][name] = {'label': 'bounded (not a proof)', 'bound': ' '.join(args), 'summary': summ[0] if summ else None,
                               'violations_found': len(vio), 'wall_s': round(time.time() - t0, 1),
                               'stands_in_for': ('R6 adapter-chain getters (get_incoming/outgoing_*, iter_unsorted, descendants constructor) and cross-check of the contracts'
                                                 if name == 'graph' else
                                                 'the assumed std::fs/io/sha2 shim contracts of unit fs and every construct outside them: the real checkers on real temporary files with explicitly set modification times, all ordered pairs of 20 path states (absent, files around and beyond the read buffer, directories), three stamp routes, read-through after stamp_reader, Resource::write'
                                                 if name == 'fs' else
                                                 'the assumed HashMap/Any/TypeId shim contracts of unit map and every construct outside them: random operation sequences over two key types with different value types (reads, writers, entry API, direct map access, checker routes) interleaved with typed state accesses of matching and non-matching types, on the real crate through Pie::resource_state_mut, against a one-slot-per-resource-type model; both slots observed after every operation'
                                                 if name == 'map' else
                                                 'the functions not under contract (bottom-up context, Tracking bodies, ResourceDependency::check/is_consistent, SessionInternal::require, trait-object identity) '
                                                 'and the composition of the per-function contracts over whole builds; random well-formed task programs and histories on the real crate, '
                                                 'checked against a from-scratch build on a fresh instance and against a model of the recorded dependencies rebuilt from the event stream')}
        if not summ and not vio:
            out['undecided'].append('bounded stand-in produced no summary: ' + err)
        also = (ALSO if name == 'graph' else PIE_ALSO if name == 'pie' else {}).get(pid, ())
        for r in vio:
            # an oracle of this property that fails only on histories with aborted builds is re-attributed to C19 by the engine, which
            # keeps the oracle's name in brackets: it still is a failure of this property's oracle
            wrapped = r['obligation'] == 'C19.bounded.builds_after_an_abort_are_sound' and ('[%s.' % pid) in r.get('what', '')
            if r['property'] == pid or r['obligation'] in also or wrapped:
                if name == 'graph':
                    out['violations'].append({'obligation': r['obligation'], 'unit': 'bounded:graph', 'backend': 'bounded enumeration of the real crate',
                                              'diagnostics': [{'message': r['what'], 'at': [json.dumps(r['ops'])], 'gen_lines': []}],
                                              'concrete_input': {'engine': 'graph', 'ops': r['ops'], 'what': r['what']}, 'site': json.dumps(r['ops'])})
                else:
                    out['violations'].append({'obligation': r['obligation'], 'unit': 'bounded:' + name, 'backend': 'bounded exploration of the real crate',
                                              'diagnostics': [{'message': r['what'], 'at': [r['rerun']], 'gen_lines': []}],
                                              'concrete_input': _pie_case(r), 'site': r['rerun']})
            else:
                out['aux'].append('%s (reported under %s): %s' % (r['obligation'], r['property'], r['what'][:200]))
    return out

def search_counterexample(here, repo, pid, obligation):
    """When a Verus obligation fails: look for a concrete failing operation sequence / build history on the real crate."""
    binp, err = _build(here, repo)
    if binp is None: return None
    if obligation.split('.')[0] in ('C13', 'C14'):
        try:
            rc, recs, err = _run(binp, ['fs'] if obligation.startswith('C13') else MAP_BOUNDS['quick'] + ['--seed', '1'], timeout=900)
        except subprocess.TimeoutExpired:
            return None
        vio = [r for r in recs if r.get('violation')]
        if not vio: return None
        c = _pie_case(vio[0]); c['found_for'] = vio[0]['obligation']
        return c
    if obligation.split('.')[0] in ('C10', 'C11', 'C07', 'C16', 'C02'):
        try:
            rc, recs, err = _run(binp, GRAPH_BOUNDS['quick'] + ['--seed', '1'], timeout=900)
            vio = [r for r in recs if r.get('violation')]
            if vio:
                r = vio[0]
                return {'engine': 'graph', 'ops': r['ops'], 'what': r['what'], 'found_for': r['obligation']}
        except subprocess.TimeoutExpired:
            pass
    if len(obligation.split('.')) > 1 and obligation.split('.')[1] in ('graph', 'add_edge', 'add_node', 'remove_node', 'remove_edge', 'descendants', 'descendants_unsorted'):
        return None
    try:
        rc, recs, err = _run(binp, PIE_BOUNDS['quick'] + ['--seed', '1'], timeout=900)
    except subprocess.TimeoutExpired:
        return None
    vio = [r for r in recs if r.get('violation')]
    mine = [r for r in vio if r['property'] == pid or r['obligation'] in PIE_ALSO.get(pid, ())] or vio
    if not mine: return None
    c = _pie_case(mine[0]); c['found_for'] = mine[0]['obligation']
    return c

def replay_case(here, repo, pid, case):
    if case.get('engine') not in ('graph', 'pie', 'fs', 'map'): return True, 'no replay engine for this case'
    binp, err = _build(here, repo)
    if binp is None: return True, 'replay binary does not build: ' + err
    if case['engine'] == 'graph':
        rc, recs, err = _run(binp, ['replay', json.dumps(case['ops'], separators=(',', ':'))])
    else:
        rc, recs, err = _run(binp, case['rerun'].split())
    return rc == 0, json.dumps(recs)
