"""Bounded stand-ins and concrete counterexample search on the real crates (replay/)."""
import os, subprocess, json

def run(here, repo, pid, names, tier, seed):
    return {'report': None, 'undecided': [], 'violations': []}

def search_counterexample(here, repo, pid, obligation):
    return None

def replay_case(here, repo, pid, case):
    return True, 'no replay engine for this case'
