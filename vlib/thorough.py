"""Thorough tier, on top of the quick decision (the bounded stand-ins already run at their larger bounds in this tier):

 1. solver stability: every Verus unit of the property is re-run under two more solver seeds; a unit that verifies under one seed and
    not under another is reported as unstable (informational: the decision stays with the quick run's retry policy).
 2. contract self-test: mechanical mutants (relational/boolean flips, dropped statements, swapped arguments, off-by-one constants) of
    the REAL functions under contract -- applied to a scratch copy of /repo's sources, re-extracted and re-verified -- must each be
    rejected by an obligation.  A mutant that still verifies completely is a *survivor*: either an equivalent mutant or a gap in the
    contracts; survivors are listed in the evidence (they do not change the exit code: the unchanged tree is what is being decided).
"""
import os, re, json, time, random, shutil, tempfile
from concurrent.futures import ThreadPoolExecutor
from . import weave, verus as V, rustsrc

MAX_MUTANTS_PER_UNIT = int(os.environ.get('VERIF_MUTANTS_PER_UNIT', '16'))
BUDGET_S = int(os.environ.get('VERIF_THOROUGH_BUDGET_S', '900'))

REL = [(' < ', ' <= '), (' <= ', ' < '), (' > ', ' >= '), (' >= ', ' > '), (' == ', ' != '), (' != ', ' == '), (' && ', ' || '), (' || ', ' && '),
       (' + 1', ' - 1'), (' - 1', ' + 1'), ('true', 'false'), ('false', 'true'), ('if !', 'if '), ('.is_some()', '.is_none()'), ('.is_none()', '.is_some()'),
       ('Ok(true)', 'Ok(false)'), ('Ok(false)', 'Ok(true)')]
CALL2 = re.compile(r'(\b[\w.:]+)\((\s*&?(?:mut )?[A-Za-z_][\w.]*\s*),(\s*&?(?:mut )?[A-Za-z_][\w.]*\s*)\)')

def _mutants_of(body_lines):
    """[(line index, new line or None for deletion, description)]"""
    out = []
    for i, l in enumerate(body_lines):
        s = l.strip()
        if not s or s.startswith('//') or s.startswith('#['): continue
        code = l.split('//')[0]
        for a, b in REL:
            k = code.find(a)
            if k >= 0: out.append((i, code[:k] + b + code[k + len(a):], '`%s` -> `%s`' % (a.strip(), b.strip())))
        m = CALL2.search(code)
        if m and m.group(2).strip() != m.group(3).strip():
            out.append((i, code[:m.start()] + '%s(%s,%s)' % (m.group(1), m.group(3), m.group(2)) + code[m.end():], 'swapped the arguments of `%s`' % m.group(1)))
        if s.endswith(';') and not s.startswith(('let ', 'return', 'break', 'continue', 'use ')) and s.count('(') == s.count(')') and '{' not in s and '}' not in s:
            out.append((i, None, 'dropped the statement `%s`' % s[:60]))
    return out

def _unit_items(repo, vc):
    u = weave.parse_vc(vc); cache = {}; items = []
    for sec in u.sections:
        if sec[0] != 'item': continue
        spec = sec[1]
        try:
            text, it = weave.extract_item(repo, spec, cache)
        except weave.WeaveError:
            continue
        if it.kind != 'fn': continue
        items.append((spec, it, text))
    return items

def _verify(repo, vc, out_dir, edition_args=None):
    gen = os.path.join(out_dir, 'unit.rs')
    try:
        meta = weave.generate(repo, vc, gen)
    except weave.WeaveError as e:
        return 'rejected (extraction: %s)' % str(e)[:80], None
    res = V.run_verus(gen, meta['edition'], meta['verus_args'], None, 1, timeout=600)
    cls = V.classify(meta, res, open(gen).read())
    if cls['compile_errors']: return 'rejected (does not type-check under the shims)', None
    if cls['resource'] and not (cls['failed_tags'] or cls['untagged']): return 'undecided (resource limit)', None
    if cls['failed_tags'] or cls['untagged'] or cls['infra'] or not cls['success']:
        tags = sorted(cls['failed_tags'])[:3] or sorted({t for it, _ in cls['untagged'] for t in cls['item_tags'].get(it, [])})[:3]
        return 'killed', tags
    return 'SURVIVED', None

def self_test(here, repo, pid, units, seed, deadline):
    rng = random.Random(seed or 1)
    report = {'mutants': 0, 'killed': 0, 'rejected_untyped': 0, 'undecided': 0, 'survivors': [], 'per_unit': {}, 'skipped_units': []}
    scratch = tempfile.mkdtemp(prefix='pie_verif_mut_')
    try:
        jobs = []
        for unit in units:
            vc = os.path.join(here, 'contracts', unit + '.vc')
            items = _unit_items(repo, vc)
            cands = []
            for spec, it, text in items:
                lines = text.split('\n')
                # body = after the line holding the opening brace of the fn
                b0 = next((k for k, l in enumerate(lines) if l.rstrip().endswith('{')), 0) + 1
                for (i, new, what) in _mutants_of(lines[b0:]):
                    cands.append((spec, it, b0 + i, new, what))
            rng.shuffle(cands)
            for c in cands[:MAX_MUTANTS_PER_UNIT]: jobs.append((unit, vc) + c)
        def one(k_job):
            k, (unit, vc, spec, it, li, new, what) = k_job
            if time.time() > deadline: return unit, spec.path, what, 'not run (time budget)', None
            root = os.path.join(scratch, 'w%d' % k); os.makedirs(root)
            for sub in ('graph/src', 'pie/src'):
                shutil.copytree(os.path.join(repo, sub), os.path.join(root, sub))
            fpath = os.path.join(root, spec.file); src = open(fpath).read()
            ls = src.rfind('\n', 0, it.start) + 1
            item_text = src[ls:it.end]; lines = item_text.split('\n')
            if new is None: del lines[li]
            else: lines[li] = new
            open(fpath, 'w').write(src[:ls] + '\n'.join(lines) + src[it.end:])
            verdict, tags = _verify(root, vc, os.path.join(root, 'gen'))
            shutil.rmtree(root, ignore_errors=True)
            return unit, spec.path, what, verdict, tags
        with ThreadPoolExecutor(max_workers=8) as ex:
            for unit, item, what, verdict, tags in ex.map(one, list(enumerate(jobs))):
                pu = report['per_unit'].setdefault(unit, {'mutants': 0, 'killed': 0, 'survived': 0})
                if verdict.startswith('not run'): continue
                report['mutants'] += 1; pu['mutants'] += 1
                if verdict == 'killed': report['killed'] += 1; pu['killed'] += 1
                elif verdict.startswith('rejected'): report['rejected_untyped'] += 1
                elif verdict.startswith('undecided'): report['undecided'] += 1
                else:
                    pu['survived'] += 1
                    report['survivors'].append({'unit': unit, 'item': item, 'mutant': what})
    finally:
        shutil.rmtree(scratch, ignore_errors=True)
    return report

def stability(here, repo, units, seed):
    out = {}
    def one(u):
        vc = os.path.join(here, 'contracts', u + '.vc'); d = tempfile.mkdtemp(prefix='pie_verif_stab_')
        try:
            gen = os.path.join(d, u + '.rs'); meta = weave.generate(repo, vc, gen); text = open(gen).read(); runs = []
            # two other solver seeds, and the same text under two other crate names (the crate name changes every mangled symbol and
            # with it the solver's term order -- what a harmless edit of the source does too; found necessary for Store::reset_task)
            for sd, crate in (((seed or 0) + 101, u), ((seed or 0) + 202, u), ((seed or 0) + 303, 'zz_' + u), ((seed or 0) + 404, u + '_q7')):
                f = gen
                if crate != u: f = os.path.join(d, crate + '.rs'); shutil.copy(gen, f)
                res = V.run_verus(f, meta['edition'], meta['verus_args'], sd, 1)
                cls = V.classify(meta, res, text)
                runs.append({'seed': sd, 'crate_name': crate, 'verified': cls['verified'], 'errors': cls['errors'], 'resource_outs': len(cls['resource']), 'wall_s': res['wall_s']})
            return u, runs
        except weave.WeaveError as e:
            return u, [{'error': str(e)[:200]}]
        finally:
            shutil.rmtree(d, ignore_errors=True)
    with ThreadPoolExecutor(max_workers=4) as ex:
        for u, runs in ex.map(one, units): out[u] = runs
    return out

def run(here, repo, pid, P, seed, D):
    t0 = time.time(); deadline = t0 + BUDGET_S
    units = P.get('verus_units', [])
    rep = {'undecided': [], 'violations': []}
    if not units: return rep
    rep['solver_stability'] = stability(here, repo, units, seed)
    unstable = [u for u, runs in rep['solver_stability'].items() if any(r.get('errors', 0) not in (0,) for r in runs)]
    if unstable: rep['unstable_units'] = unstable
    # self-test only the units whose obligations carry this property's tags (imports are other properties' business)
    own = [u for u in units if any(o['unit'] == u for o in D['obligations'])]
    rep['contract_self_test'] = self_test(here, repo, pid, own, seed, deadline)
    rep['wall_s'] = round(time.time() - t0, 1)
    return rep
