def run(here, repo, pid, P, seed, D):
    return {}
