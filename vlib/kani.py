"""Kani units: loop-free full-domain harnesses on the compiled real crates (see kani/)."""
import os, subprocess, time, re, shutil, json

def run_group(here, repo, pid, harnesses, tier):
    """harnesses: [{"harness": name, "obligation": tag}] -> dict(obligations, undecided, trusted, timing, cmd)"""
    kdir = os.path.join(here, 'kani')
    out = {'obligations': [], 'undecided': [], 'trusted': [], 'timing': {}, 'cmd': ''}
    if not harnesses: return out
    try:
        shutil.copy(os.path.join(repo, 'Cargo.lock'), os.path.join(kdir, 'Cargo.lock'))
    except OSError as e:
        out['undecided'].append('kani: cannot copy Cargo.lock: %s' % e); return out
    env = dict(os.environ, CARGO_NET_OFFLINE='true', CARGO_TARGET_DIR=os.path.join(here, '.build', 'kani-target'), RUSTFLAGS='--cfg gohla_pie_verif')
    names = [h['harness'] for h in harnesses]
    cmd = ['cargo', 'kani', '-Z', 'function-contracts', '-Z', 'stubbing', '--output-format', 'terse', '-j', '8']
    for n in names: cmd += ['--harness', n]
    out['cmd'] = 'cd kani && CARGO_NET_OFFLINE=true RUSTFLAGS="--cfg gohla_pie_verif" ' + ' '.join(cmd)
    t0 = time.time()
    try:
        p = subprocess.run(cmd, cwd=kdir, env=env, capture_output=True, text=True, timeout=3000)
        txt = p.stdout + '\n' + p.stderr
    except subprocess.TimeoutExpired:
        out['undecided'].append('kani: timeout'); return out
    out['timing'] = {'wall_s': round(time.time() - t0, 1)}
    # parse per-harness results (with -j the output of each finished harness is one block tagged by its thread)
    res = {}
    running = {}; cur = None
    for line in txt.split('\n'):
        m = re.match(r'^(?:Thread (\d+): )?Checking harness (\S+?)\.\.\.', line)
        if m:
            name = m.group(2).split('::')[-1]; running[m.group(1) or '0'] = name; res.setdefault(name, {'lines': []})
            cur = name if m.group(1) is None else cur
            continue
        m = re.match(r'^Thread (\d+):\s*$', line)
        if m: cur = running.get(m.group(1)); continue
        if cur and cur in res:
            res[cur]['lines'].append(line)
            if 'VERIFICATION:- SUCCESSFUL' in line: res[cur]['ok'] = True
            elif 'VERIFICATION:- FAILED' in line: res[cur]['ok'] = False
    for m in re.finditer(r'Verification failed for - (\S+)', txt):
        res.setdefault(m.group(1).split('::')[-1], {'lines': []})['ok'] = False
    m = re.search(r'Complete - (\d+) successfully verified harnesses, (\d+) failures, (\d+) total', txt)
    if m:
        out['timing']['summary'] = m.group(0)
        n_ok = sum(1 for r in res.values() if r.get('ok') is True)
        if int(m.group(1)) != n_ok or int(m.group(3)) != len(names):
            out['undecided'].append('kani: summary (%s) disagrees with parsed per-harness results (%d ok of %d requested)' % (m.group(0), n_ok, len(names)))
    else:
        out['undecided'].append('kani: no summary line; tail: ' + txt[-400:])
    if 'error: could not compile' in txt or 'error[E' in txt:
        out['undecided'].append('kani: harness crate does not compile against the current tree: ' + '\n'.join(l for l in txt.split('\n') if 'error' in l)[:600])
    for h in harnesses:
        r = res.get(h['harness'])
        ob = {'obligation': h['obligation'], 'unit': 'kani:' + h['harness'], 'backend': 'kani/cbmc', 'what': h.get('what', '')}
        if r is None or 'ok' not in r:
            ob['status'] = 'undecided'
            if not out['undecided']: out['undecided'].append('kani: no result for harness %s' % h['harness'])
        elif r['ok']: ob['status'] = 'discharged'
        else:
            ob['status'] = 'failed'
            fails = [l for l in r['lines'] if 'Failed Checks' in l or 'FAILURE' in l]
            ob['diagnostics'] = [{'message': '\n'.join(fails[:6]), 'at': [], 'gen_lines': []}]
        out['obligations'].append(ob)
    out['trusted'] = ['kani 0.68 / CBMC: full-domain symbolic, loop-free harnesses for the instantiations named in each harness',
                      'kani: alloc::fmt::format stubbed where noted in kani/src']
    return out


def playback(here, repo, harness):
    """Concrete values for a failing harness (Kani's concrete playback), as text."""
    kdir = os.path.join(here, 'kani')
    env = dict(os.environ, CARGO_NET_OFFLINE='true', CARGO_TARGET_DIR=os.path.join(here, '.build', 'kani-target'), RUSTFLAGS='--cfg gohla_pie_verif')
    cmd = ['cargo', 'kani', '-Z', 'function-contracts', '-Z', 'stubbing', '-Z', 'concrete-playback', '--concrete-playback=print', '--harness', harness]
    try:
        p = subprocess.run(cmd, cwd=kdir, env=env, capture_output=True, text=True, timeout=1800)
    except subprocess.TimeoutExpired:
        return None
    txt = p.stdout
    i = txt.find('Concrete playback unit test')
    vals = txt[i:i + 3000] if i >= 0 else None
    fails = [l for l in txt.split('\n') if 'Failed Checks' in l or ('Status: FAILURE' in l)]
    return {'kani_harness': harness, 'failed_checks': fails[:8], 'concrete_playback_test': vals}

def replay(here, repo, harness):
    """Re-run one harness on the real crate: (ok, text)."""
    kdir = os.path.join(here, 'kani')
    try:
        shutil.copy(os.path.join(repo, 'Cargo.lock'), os.path.join(kdir, 'Cargo.lock'))
    except OSError:
        pass
    env = dict(os.environ, CARGO_NET_OFFLINE='true', CARGO_TARGET_DIR=os.path.join(here, '.build', 'kani-target'), RUSTFLAGS='--cfg gohla_pie_verif')
    cmd = ['cargo', 'kani', '-Z', 'function-contracts', '-Z', 'stubbing', '--output-format', 'terse', '--harness', harness]
    p = subprocess.run(cmd, cwd=kdir, env=env, capture_output=True, text=True, timeout=3000)
    ok = 'VERIFICATION:- SUCCESSFUL' in p.stdout and 'VERIFICATION:- FAILED' not in p.stdout
    tail = '\n'.join(l for l in p.stdout.split('\n') if 'Failed Checks' in l or 'VERIFICATION' in l)
    return ok, tail
