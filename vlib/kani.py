"""Kani units: loop-free full-domain harnesses on the compiled real crates (see kani/)."""
import os, subprocess, time, re, shutil, json

def run_group(here, repo, pid, harnesses, tier):
    """harnesses: [{"harness": name, "obligation": tag}] -> dict(obligations, undecided, trusted, timing, cmd)"""
    kdir = os.path.join(here, 'kani')
    out = {'obligations': [], 'undecided': [], 'trusted': [], 'timing': {}, 'cmd': ''}
    if not harnesses: return out
    try:
        shutil.copy(os.path.join(repo, 'Cargo.lock'), os.path.join(kdir, 'Cargo.lock'))
    except OSError as e:
        out['undecided'].append('kani: cannot copy Cargo.lock: %s' % e); return out
    env = dict(os.environ, CARGO_NET_OFFLINE='true', CARGO_TARGET_DIR=os.path.join(here, '.build', 'kani-target'))
    names = [h['harness'] for h in harnesses]
    cmd = ['cargo', 'kani', '-Z', 'function-contracts', '-Z', 'stubbing', '--output-format', 'terse', '-j', '8']
    for n in names: cmd += ['--harness', n]
    out['cmd'] = 'cd kani && CARGO_NET_OFFLINE=true ' + ' '.join(cmd)
    t0 = time.time()
    try:
        p = subprocess.run(cmd, cwd=kdir, env=env, capture_output=True, text=True, timeout=3000)
        txt = p.stdout + '\n' + p.stderr
    except subprocess.TimeoutExpired:
        out['undecided'].append('kani: timeout'); return out
    out['timing'] = {'wall_s': round(time.time() - t0, 1)}
    # parse per-harness results
    res = {}
    cur = None
    for line in txt.split('\n'):
        m = re.search(r'Checking harness (\S+?)\.\.\.', line)
        if m: cur = m.group(1).split('::')[-1]; res[cur] = {'lines': []}
        if cur:
            res[cur]['lines'].append(line)
            if 'VERIFICATION:- SUCCESSFUL' in line: res[cur]['ok'] = True
            elif 'VERIFICATION:- FAILED' in line: res[cur]['ok'] = False
    if 'error: could not compile' in txt or 'error[E' in txt:
        out['undecided'].append('kani: harness crate does not compile against the current tree: ' + '\n'.join(l for l in txt.split('\n') if 'error' in l)[:600])
    for h in harnesses:
        r = res.get(h['harness'])
        ob = {'obligation': h['obligation'], 'unit': 'kani:' + h['harness'], 'backend': 'kani/cbmc', 'what': h.get('what', '')}
        if r is None or 'ok' not in r:
            ob['status'] = 'undecided'
            if not out['undecided']: out['undecided'].append('kani: no result for harness %s' % h['harness'])
        elif r['ok']: ob['status'] = 'discharged'
        else:
            ob['status'] = 'failed'
            fails = [l for l in r['lines'] if 'Failed Checks' in l or 'FAILURE' in l]
            ob['diagnostics'] = [{'message': '\n'.join(fails[:6]), 'at': [], 'gen_lines': []}]
        out['obligations'].append(ob)
    out['trusted'] = ['kani 0.68 / CBMC: full-domain symbolic, loop-free harnesses for the instantiations named in each harness',
                      'kani: alloc::fmt::format stubbed where noted in kani/src']
    return out
