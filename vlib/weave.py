"""Contract weaving: real code from /repo + contracts/<unit>.vc  ->  build/<unit>.rs  (one Verus file).

A .vc file is a sequence of sections:

  @unit NAME / @edition 2021|2024 / @verus-args ...          header
  @raw                                                        Verus text copied through (shims, spec fns, lemmas,
                                                              impl headers).  Exec fns in raw text are reported as trusted.
  @item <file> <item path>                                    a real item; followed by options and a template:
     @opt ret=NAME              name the return value  `-> T`  =>  `-> (NAME: T)`
     @opt nosplit               do not move the body's opening brace to its own line
     @lit  ["old","new",n?]     literal rewrite of the extracted text (must match exactly n times, default 1)
     @re   ["pat","repl",n?]    regex rewrite (re.M)
     @dropline ["regex"]        drop whole lines matching (attributes, docs inside type declarations)
     @template
     ...annotated item...       code lines (must be the extracted lines) interleaved with ghost lines

Template lines are classified by syntax alone (see split_template): a line that starts a ghost construct
(`proof {`, `let ghost`, `assert…`, `requires/ensures/invariant/decreases …`, `#[verifier…]`, `//~`) opens an
annotation chunk, which extends to the end of that statement / clause block; every other non-blank line is a
*baseline code line*.  On the unchanged tree the baseline code lines equal the extracted lines, and the woven
output is the template.  When the repository's code differs, the current lines are diffed against the baseline
lines and each annotation chunk stays in front of the line it was in front of (positional inside replaced ranges).
The executable text of the output therefore always comes from /repo; the template contributes ghost text only.
"""
import json, re, difflib, hashlib, os
from dataclasses import dataclass, field
from . import rustsrc

class WeaveError(Exception):
    """lost anchor / unsupported construct: exit 2, never an alarm"""

DIRECTIVES = ('@unit', '@edition', '@verus-args', '@raw', '@item', '@opt', '@lit', '@re', '@dropline', '@template', '@uses', '@assumed', '@import', '@import-lit', '@import-skip', '@unit-re')

@dataclass
class ItemSpec:
    file: str
    path: str
    opts: dict = field(default_factory=dict)
    rewrites: list = field(default_factory=list)    # (kind, old, new, count)
    droplines: list = field(default_factory=list)
    template: list = field(default_factory=list)    # (vc_line_no, text)
    vc_line: int = 0

@dataclass
class Unit:
    name: str = ''
    edition: str = '2021'
    verus_args: list = field(default_factory=list)
    sections: list = field(default_factory=list)    # ('raw', [(lineno, text)]) | ('item', ItemSpec)
    assumed: list = field(default_factory=list)     # (file, item path, note): functions with an assumed contract
    unit_re: list = field(default_factory=list)     # [(pattern, repl)] T4 type-name bindings applied to every item
    path: str = ''

def parse_vc(path):
    u = Unit(path=path)
    cur = None; mode = None
    for no, line in enumerate(open(path).read().split('\n'), 1):
        if line.startswith('@') and line.split(' ', 1)[0] in DIRECTIVES:
            d, _, rest = line.partition(' ')
            rest = rest.strip()
            if d == '@unit': u.name = rest
            elif d == '@edition': u.edition = rest
            elif d == '@verus-args': u.verus_args += rest.split()
            elif d == '@raw':
                cur = ('raw', [], rest); u.sections.append(cur); mode = 'raw'
            elif d == '@import':
                cur = ('import', {'unit': rest, 'lits': [], 'skip': []}); u.sections.append(cur); mode = 'import'
            elif d == '@unit-re':
                a = json.loads(rest); u.unit_re.append((a[0], a[1]))
            elif d == '@import-lit':
                cur[1]['lits'].append(json.loads(rest))
            elif d == '@import-skip':
                cur[1]['skip'].append(rest)
            elif d == '@item':
                f, _, p = rest.partition(' ')
                cur = ItemSpec(f, p.strip(), vc_line=no); u.sections.append(('item', cur)); mode = 'item'
            elif d == '@assumed':
                f, _, p = rest.partition(' ')
                p, _, note = p.strip().partition(' -- ')
                u.assumed.append((f, p.strip(), note.strip()))
            elif d == '@opt':
                for kv in rest.split():
                    k, _, v = kv.partition('=')
                    cur.opts[k] = v or True
            elif d in ('@lit', '@re'):
                a = json.loads(rest)
                cur.rewrites.append((d[1:], a[0], a[1], a[2] if len(a) > 2 else 1))
            elif d == '@dropline':
                cur.droplines.append(json.loads(rest)[0])
            elif d == '@template': mode = 'template'
            continue
        if mode == 'raw': cur[1].append((no, line))
        elif mode == 'template': cur.template.append((no, line))
        elif line.strip() and not line.startswith('#!'):
            raise WeaveError('%s:%d: text outside a section' % (path, no))
    return u

# ----------------------------------------------------------------------------------------------------------------
GHOST_STMT = re.compile(r'^(proof\s*\{|let ghost\b|let tracked\b|assert\s*\(|assert\s+forall\b|assert\b|assume\s*\(|reveal\s*\(|reveal_with_fuel\s*\(|broadcast use\b|calc!\s*\{)')
CLAUSE = re.compile(r'^(requires|ensures|invariant|invariant_except_break|decreases|recommends|returns|no_unwind|opens_invariants|default_ensures)\b')
ATTR = re.compile(r'^#\[(verifier::|derive\()')

def _depth_delta(line):
    d = 0
    try:
        toks = rustsrc.lex(line)
    except Exception:
        toks = []
    for t in toks:
        if t.kind == 'punct':
            if t.text in '([{': d += 1
            elif t.text in ')]}': d -= 1
    return d

def _strip_comment(line):
    try:
        toks = rustsrc.lex(line, keep_comments=True)
    except Exception:
        return line.strip()
    toks = [t for t in toks if t.kind != 'comment']
    return line[:toks[-1].end].strip() if toks else ''

def split_template(tmpl):
    """tmpl: [(vc_line, text)] -> list of segments [(chunk, code)] where chunk = annotation lines in front of code line
    `code` ((vc_line,text) or None for the trailing chunk)."""
    segs = []; chunk = []
    mode = None; depth = 0
    for no, text in tmpl:
        s = text.strip()
        if mode == 'stmt':
            chunk.append((no, text)); depth += _depth_delta(text)
            sc = _strip_comment(text)
            if depth <= 0 and (sc.endswith(';') or sc.endswith('}')): mode = None
            continue
        if mode == 'clause':
            if s.startswith('{'):
                mode = None     # falls through: this is a code line
            else:
                chunk.append((no, text)); continue
        if not s:
            chunk.append((no, text)); continue
        if s.startswith('//~') or ATTR.match(s):
            chunk.append((no, text)); continue
        if GHOST_STMT.match(s):
            chunk.append((no, text)); depth = _depth_delta(text)
            sc = _strip_comment(text)
            if not (depth <= 0 and (sc.endswith(';') or sc.endswith('}'))): mode = 'stmt'
            continue
        if CLAUSE.match(s):
            chunk.append((no, text)); mode = 'clause'; continue
        segs.append((chunk, (no, text))); chunk = []
    if mode is not None:
        raise WeaveError('template ends inside an annotation (vc line %d)' % (tmpl[-1][0] if tmpl else 0))
    segs.append((chunk, None))
    return segs

# ----------------------------------------------------------------------------------------------------------------
LOOP_HDR = re.compile(r"^(\s*)((?:'\w+\s*:\s*)?(?:for|while|loop)\b.*?)\s*\{\s*(//.*)?$")

def extract_item(repo, spec: ItemSpec, cache):
    fpath = os.path.join(repo, spec.file)
    if fpath not in cache:
        try:
            src = open(fpath).read()
        except OSError as e:
            raise WeaveError('lost anchor: cannot read %s (%s)' % (spec.file, e))
        try:
            cache[fpath] = (src, rustsrc.find_items(src))
        except Exception as e:
            raise WeaveError('unsupported construct: cannot tokenise %s (%s)' % (spec.file, e))
    src, items = cache[fpath]
    if spec.path not in items:
        raise WeaveError('lost anchor: item `%s` not found in %s' % (spec.path, spec.file))
    it = items[spec.path]
    # keep the indentation of the first line
    ls = src.rfind('\n', 0, it.start) + 1
    text = src[ls:it.end]
    return text, it

def transform(text, it_kind, spec: ItemSpec, log, unit_re=()):
    """Apply the mechanical rules to the extracted text; every application is logged."""
    name = spec.path
    for pat, repl in unit_re:
        text, n = re.subn(pat, repl, text, flags=re.M)
        if n: log.append({'rule': 'T4', 'item': name, 'before': pat, 'after': repl, 'count': n})
    if it_kind in ('struct', 'enum') and 'pubfields' in spec.opts:
        # T1: visibility only (Verus lets contracts mention visible fields only); cfg_attr/doc lines inside the declaration go (T0)
        out = []
        for i, l in enumerate(text.split('\n')):
            s = l.strip()
            if s.startswith('#[') or s.startswith('///'):
                log.append({'rule': 'T0', 'item': name, 'what': 'dropped line `%s`' % s}); continue
            if i == 0 and not s.startswith('pub '):
                l = l.replace(s, 'pub ' + s, 1)
            elif i > 0 and it_kind == 'struct' and re.match(r'^[a-z_]\w*\s*:', s):
                l = l.replace(s, 'pub ' + s, 1)
            out.append(l)
        text = '\n'.join(out)
        m = re.match(r'^(\s*pub struct \w+(?:<[^>]*>)?)\((?!pub )([^()]*)\);', text)
        if m: text = m.group(1) + '(pub ' + m.group(2) + ');' + text[m.end():]
        log.append({'rule': 'T1', 'item': name, 'what': 'type and fields made pub'})
    for pat in spec.droplines:
        rx = re.compile(pat)
        kept = []
        for l in text.split('\n'):
            if rx.search(l): log.append({'rule': 'T0', 'item': name, 'what': 'dropped line `%s`' % l.strip()})
            else: kept.append(l)
        text = '\n'.join(kept)
    for kind, old, new, count in spec.rewrites:
        if kind == 'lit':
            n = text.count(old)
            if n != count:
                raise WeaveError('lost anchor: rewrite target occurs %d times (expected %d) in %s: %r' % (n, count, name, old))
            text = text.replace(old, new)
        else:
            text, n = re.subn(old, new, text, flags=re.M)
            if n != count:
                raise WeaveError('lost anchor: regex rewrite matched %d times (expected %d) in %s: %r' % (n, count, name, old))
        log.append({'rule': 'T5' if kind == 'lit' else 'T5re', 'item': name, 'before': old, 'after': new, 'count': count})
    if it_kind == 'fn':
        body, ret = rustsrc.fn_signature_parts(text)
        # T2a: body brace on its own line ; T2c: named return value
        if text[body] == '{' and 'nosplit' not in spec.opts:
            indent = re.match(r'\s*', text).group(0)
            head = text[:body].rstrip()
            tail = text[body:]
            if ret and spec.opts.get('ret'):
                rs, re_ = ret
                rty = text[rs:re_].strip()
                head = text[:rs] + ' (' + spec.opts['ret'] + ': ' + rty + ')' + ('' if text[re_:body][:1].isspace() or re_ == body else ' ') + text[re_:body]
                head = head.rstrip()
                log.append({'rule': 'T2c', 'item': name, 'what': 'named return value `%s: %s`' % (spec.opts['ret'], rty)})
            text = head + '\n' + indent + tail
    if it_kind == 'fn':
        # T3: panics are renamed by the prefix of their message literal; the local macros map them to abort shims:
        #   "BUG..."  -> bug_panic!  (shim `requires false`: must be proved unreachable)
        #   diagnosed violations -> diag_panic!  (shim `ensures false`: the build aborts)
        n1 = len(re.findall(r'\bpanic!\(\s*"BUG', text)); n2 = len(re.findall(r'\bpanic!\(\s*"(Hidden dependency|Overlapping write|Cyclic task dependency)', text))
        if n1:
            text = re.sub(r'\bpanic!\((\s*)"BUG', r'bug_panic!(\1"BUG', text)
            log.append({'rule': 'T3', 'item': name, 'what': '%d x panic!("BUG…") -> bug_panic!' % n1})
        if n2:
            text = re.sub(r'\bpanic!\((\s*)"(Hidden dependency|Overlapping write|Cyclic task dependency)', r'diag_panic!(\1"\2', text)
            log.append({'rule': 'T3', 'item': name, 'what': '%d x diagnostic panic! -> diag_panic!' % n2})
    # T2b: loop headers: `{` on its own line
    out = []
    for l in text.split('\n'):
        m = LOOP_HDR.match(l)
        if m and it_kind == 'fn':
            out.append(m.group(1) + m.group(2) + ((' ' + m.group(3)) if m.group(3) else ''))
            out.append(m.group(1) + '{')
        else: out.append(l)
    if spec.opts.get('ghostiter') and it_kind == 'fn':
        # T2: name the ghost iterator of every `for` loop (`for x in it: e`), needed to state invariants over it
        g = spec.opts['ghostiter']; n = 0
        for i, l in enumerate(out):
            m = re.match(r'^(\s*for .+? in )(?!%s: )(.+)$' % g, l)
            if m and not l.rstrip().endswith('{'):
                out[i] = m.group(1) + g + ': ' + m.group(2); n += 1
        log.append({'rule': 'T2', 'item': name, 'what': 'ghost iterator name `%s` on %d for-loops' % (g, n)})
    return '\n'.join(out)

def norm(l): return re.sub(r'\s+', ' ', l.strip())

def _balanced(lines):
    d = 0
    for l in lines:
        for t in rustsrc.lex(l):
            if t.kind == 'punct':
                if t.text in '([{': d += 1
                elif t.text in ')]}':
                    d -= 1
                    if d < 0: return False
    return d == 0

def _slide(ops, a, b):
    """Diff-slider: a pure deletion/insertion whose block can be shifted over equal neighbouring lines is shifted to a
    position where the block is bracket-balanced (`}` + `if x {` + `y;`  ->  `if x {` + `y;` + `}`), so that annotation chunks stay
    attached to the lines of the right block."""
    ops = [list(o) for o in ops]
    k = 0
    while k < len(ops):
        tag, i1, i2, j1, j2 = ops[k]
        if tag in ('delete', 'insert'):
            seq, lo, hi = (a, i1, i2) if tag == 'delete' else (b, j1, j2)
            if not _balanced(seq[lo:hi]):
                nxt = ops[k + 1] if k + 1 < len(ops) and ops[k + 1][0] == 'equal' else None
                prv = ops[k - 1] if k > 0 and ops[k - 1][0] == 'equal' else None
                d = None
                if nxt:
                    for t in range(1, nxt[2] - nxt[1] + 1):
                        if seq[lo + t - 1] != seq[hi + t - 1]: break
                        if _balanced(seq[lo + t:hi + t]): d = t; break
                if d is None and prv:
                    for t in range(1, prv[2] - prv[1] + 1):
                        if seq[hi - t] != seq[lo - t]: break
                        if _balanced(seq[lo - t:hi - t]): d = -t; break
                if d is not None:
                    ops[k] = [tag, i1 + d, i2 + d, j1 + d, j2 + d]
                    if d > 0:
                        nxt[1] += d; nxt[3] += d
                        if prv: prv[2] += d; prv[4] += d
                        else: ops.insert(k, ['equal', i1, i1 + d, j1, j1 + d]); k += 1
                    else:
                        prv[2] += d; prv[4] += d
                        if nxt: nxt[1] += d; nxt[3] += d
                        else: ops.insert(k + 1, ['equal', i2 + d, i2, j2 + d, j2])
        k += 1
    return [tuple(o) for o in ops if not (o[0] == 'equal' and o[1] == o[2])]

def _rename_map(base_lines, cur_lines):
    """If the current code is the template's code up to a consistent, injective renaming of identifiers (same token sequence otherwise),
    return {old: new}; else None.  Renaming a local is the commonest property-preserving edit: the ghost text then follows it."""
    try:
        a = rustsrc.lex('\n'.join(base_lines)); b = rustsrc.lex('\n'.join(cur_lines))
    except Exception:
        return None
    if len(a) != len(b): return None
    m = {}
    for x, y in zip(a, b):
        if x.kind != y.kind: return None
        if x.text == y.text: continue
        if x.kind != 'ident': return None
        if m.setdefault(x.text, y.text) != y.text: return None
    if not m or len(set(m.values())) != len(m): return None
    # only LOCAL BINDERS may be followed: a name that is ever used as a field, method, path segment, callee, macro or struct name is
    # not a local, and its first occurrence must be a binding position (let / for / closure or fn parameter / pattern).  Without this
    # a swap of two field names (`children` -> `parents`) was taken for a renaming and carried into the contract (found by a mutant).
    for name in m:
        occ = [i for i, t in enumerate(a) if t.kind == 'ident' and t.text == name]
        for i in occ:
            prev = a[i - 1].text if i > 0 else ''; nxt = a[i + 1].text if i + 1 < len(a) else ''
            if prev in ('.', '::') or nxt in ('(', '!', '::', '{', '<'): return None
        if name[:1].isupper() or m[name][:1].isupper(): return None
        i = occ[0]; prev = a[i - 1].text if i > 0 else ''; nxt = a[i + 1].text if i + 1 < len(a) else ''
        binder = prev in ('let', 'mut', 'for', 'ref') or (prev in ('|', '(', ',', '&') and nxt in (':', ',', ')', '|'))
        if not binder: return None
    # a renamed identifier must be renamed everywhere, and its new name must not already be in use in the template
    used = {t.text for t in a if t.kind == 'ident'}
    if any(x.text in m and y.text != m[x.text] for x, y in zip(a, b)) or any(v in used for v in m.values()): return None
    return m

def _partial_rename_map(base_lines, cur_lines):
    """Renamed local binders in an item that was ALSO edited elsewhere: names that disappeared from the item altogether, each replaced
    -- on lines that are otherwise token-identical -- by one name that is new to the item.  Same safety conditions as _rename_map (local
    binders only, injective, new names unused).  Returns {old: new} or None."""
    try:
        a = rustsrc.lex('\n'.join(base_lines)); b = rustsrc.lex('\n'.join(cur_lines))
    except Exception:
        return None
    ida = {t.text for t in a if t.kind == 'ident'}; idb = {t.text for t in b if t.kind == 'ident'}
    gone, fresh = ida - idb, idb - ida
    if not gone or not fresh: return None
    m = {}
    sm = difflib.SequenceMatcher(a=[norm(l) for l in base_lines], b=[norm(l) for l in cur_lines], autojunk=False)
    for tag, i1, i2, j1, j2 in sm.get_opcodes():
        if tag != 'replace' or i2 - i1 != j2 - j1: continue
        for k in range(i2 - i1):
            try:
                x = rustsrc.lex(base_lines[i1 + k]); y = rustsrc.lex(cur_lines[j1 + k])
            except Exception:
                continue
            if len(x) != len(y) or any(p.kind != q.kind for p, q in zip(x, y)): continue
            if any(p.text != q.text and not (p.kind == 'ident' and p.text in gone and q.text in fresh) for p, q in zip(x, y)): continue
            for p, q in zip(x, y):
                if p.text != q.text and m.setdefault(p.text, q.text) != q.text: return None
    if not m or len(set(m.values())) != len(m): return None
    for name in m:
        occ = [i for i, t in enumerate(a) if t.kind == 'ident' and t.text == name]
        for i in occ:
            prev = a[i - 1].text if i > 0 else ''; nxt = a[i + 1].text if i + 1 < len(a) else ''
            if prev in ('.', '::') or nxt in ('(', '!', '::', '{', '<'): return None
        if name[:1].isupper() or m[name][:1].isupper(): return None
        i = occ[0]; prev = a[i - 1].text if i > 0 else ''; nxt = a[i + 1].text if i + 1 < len(a) else ''
        binder = prev in ('let', 'mut', 'for', 'ref') or (prev in ('|', '(', ',', '&') and nxt in (':', ',', ')', '|'))
        if not binder: return None
    return m

def _apply_rename(text, m):
    try:
        toks = rustsrc.lex(text, keep_comments=True)
    except Exception:
        return text
    out = []; pos = 0
    for t in toks:
        out.append(text[pos:t.start]); out.append(m.get(t.text, t.text) if t.kind == 'ident' else text[t.start:t.end]); pos = t.end
    out.append(text[pos:])
    return ''.join(out)

def weave_item(repo, spec: ItemSpec, cache, log, unit_re=()):
    text, it = extract_item(repo, spec, cache)
    raw_hash = hashlib.sha256(text.encode()).hexdigest()[:16]
    cur = [l for l in transform(text, it.kind, spec, log, unit_re).split('\n') if l.strip()]
    segs = split_template(spec.template)
    base = [c[1] for _, c in segs if c is not None]
    bn = [norm(l) for l in base]; cn = [norm(l) for l in cur]
    out = []   # (origin, text)
    info = {'item': spec.path, 'kind': it.kind, 'file': spec.file, 'src_line': it.line, 'hash': raw_hash, 'code_lines': len(cur), 'in_sync': bn == cn,
            'annotation_lines': sum(len(ch) for ch, _ in segs), 'changed': []}
    def emit_chunk(ch):
        for no, t in ch: out.append((('ann', no), t))
    if bn == cn:
        for (ch, c), l in zip(segs, cur + [None]):
            emit_chunk(ch)
            if l is not None: out.append((('code', spec.path), l))
        return out, info
    ren = _rename_map(base, cur) if len(base) == len(cur) else None
    if ren:
        # identifiers renamed consistently: the ghost chunks follow the renaming, line positions are unchanged
        info['changed'].append({'op': 'rename', 'baseline': sorted(ren), 'current': [ren[k] for k in sorted(ren)]})
        for (ch, c), l in zip(segs, cur + [None]):
            for no, t in ch: out.append((('ann', no), _apply_rename(t, ren)))
            if l is not None: out.append((('code*', spec.path), l))
        return out, info
    pren = _partial_rename_map(base, cur)
    if pren:
        # local binders renamed in an item that was also edited elsewhere: the template (code lines and ghost chunks) follows the
        # renaming first, the remaining difference is then handled by the line diff below
        info['changed'].append({'op': 'rename', 'baseline': sorted(pren), 'current': [pren[k] for k in sorted(pren)]})
        segs = [([(no, _apply_rename(t, pren)) for no, t in ch], (None if c is None else (c[0], _apply_rename(c[1], pren)) + tuple(c[2:]))) for ch, c in segs]
        base = [c[1] for _, c in segs if c is not None]
        bn = [norm(l) for l in base]
    sm = difflib.SequenceMatcher(a=bn, b=cn, autojunk=False)
    ops = _slide(sm.get_opcodes(), bn, cn)
    # a block of whole lines that was only MOVED (deleted here, inserted unchanged elsewhere in the same item) takes its ghost chunks
    # along: proofs written per statement survive a reordering of statements if what they say is position-independent
    moved_from = {}; moved_to = {}
    dels = [o for o in ops if o[0] == 'delete']; inss = [o for o in ops if o[0] == 'insert']
    for d in dels:
        blk = bn[d[1]:d[2]]
        if not blk or not _balanced(blk): continue
        cands = [i for i in inss if cn[i[3]:i[4]] == blk and tuple(i) not in moved_to]
        if len(cands) == 1 and sum(1 for d2 in dels if bn[d2[1]:d2[2]] == blk) == 1:
            moved_from[tuple(d)] = cands[0]; moved_to[tuple(cands[0])] = d
    for tag, i1, i2, j1, j2 in ops:
        if tag == 'equal':
            for k in range(i2 - i1):
                emit_chunk(segs[i1 + k][0]); out.append((('code', spec.path), cur[j1 + k]))
        elif (tag, i1, i2, j1, j2) in moved_from:
            info['changed'].append({'op': 'move-from', 'baseline': base[i1:i2], 'current': []})
        elif (tag, i1, i2, j1, j2) in moved_to:
            d = moved_to[(tag, i1, i2, j1, j2)]
            info['changed'].append({'op': 'move-to', 'baseline': [], 'current': cur[j1:j2]})
            for k in range(d[2] - d[1]):
                emit_chunk(segs[d[1] + k][0]); out.append((('code*', spec.path), cur[j1 + k]))
        else:
            info['changed'].append({'op': tag, 'baseline': base[i1:i2], 'current': cur[j1:j2]})
            nb, nc = i2 - i1, j2 - j1
            for k in range(max(nb, nc)):
                if k < nb: emit_chunk(segs[i1 + k][0])
                if k < nc: out.append((('code*', spec.path), cur[j1 + k]))
    emit_chunk(segs[-1][0])
    return out, info

# ----------------------------------------------------------------------------------------------------------------
OB_TAG = re.compile(r'//\s*@ob:\s*(.+?)\s*$')
TRUST_PAT = [
    ('external_body', re.compile(r'#\[verifier::external_body\]')),
    ('external', re.compile(r'#\[verifier::external\]')),
    ('assume_specification', re.compile(r'\bassume_specification\b')),
    ('assume', re.compile(r'\bassume\s*\(')),
    ('admit', re.compile(r'\badmit\s*\(')),
    ('no_decreases', re.compile(r'exec_allows_no_decreases_clause')),
    ('accept_recursive_types', re.compile(r'accept_recursive_types')),
    ('uninterp', re.compile(r'\buninterp\s+spec\s+fn\b')),
    ('axiom', re.compile(r'\baxiom\b.*\bfn\b|\bbroadcast\s+axiom\b')),
]

def generate(repo, vc_path, out_path):
    """Returns meta dict; writes the Verus file."""
    u = parse_vc(vc_path)
    cache = {}; log = []
    lines = []       # (origin, text)
    items = []
    imports = []
    for section in u.sections:
        kind, sec = section[0], section[1]
        if kind == 'raw':
            for no, t in sec: lines.append((('raw', no), t))
        elif kind == 'import':
            ilines, iinfo = import_interface(repo, os.path.join(os.path.dirname(vc_path), sec['unit'] + '.vc'), sec, cache)
            lines += ilines; imports.append(iinfo)
        else:
            out, info = weave_item(repo, sec, cache, log, u.unit_re)
            items.append(info)
            lines += out
    # one entry per physical line (rewrites and import-lits may have put several lines into one entry): every later step maps
    # verifier diagnostics to entries by line number
    lines = [(o, part) for o, t in lines for part in t.split('\n')]
    text = '\n'.join(t for _, t in lines) + '\n'
    os.makedirs(os.path.dirname(out_path), exist_ok=True)
    open(out_path, 'w').write(text)
    # obligations, trusted base, raw exec fns
    obs = {}       # tag -> [gen line numbers]
    trusted = []
    fn_of_line = {}
    cur_fn = None
    fn_rx = re.compile(r'^\s*(?:pub(?:\([a-z]+\))?\s+)?(?:(open|closed|uninterp)\s+)?(?:(spec|proof|exec)\s+)?(?:const\s+)?fn\s+(\w+)')
    raw_exec = []
    pending_attr = []
    for i, (origin, t) in enumerate(lines, 1):
        m = OB_TAG.search(t) if origin[0] != 'import' else None
        if m:
            for tag in m.group(1).split():
                obs.setdefault(tag, []).append(i)
        s = t.strip()
        if origin[0] in ('raw', 'ann'):
            for nm, rx in TRUST_PAT:
                if rx.search(t) and not s.startswith('//'):
                    what = s
                    if s.startswith('#[') and s.endswith(']'):
                        # an attribute on its own line: what is trusted is the declaration that follows it
                        for _, t2 in lines[i:i + 6]:
                            s2 = t2.strip()
                            if s2 and not s2.startswith('#[') and not s2.startswith('//'): what = s2; break
                    trusted.append({'kind': nm, 'gen_line': i, 'vc_line': origin[1], 'text': what[:200]})
        if origin[0] == 'raw':
            if s.startswith('#['): pending_attr.append(s)
            fm = fn_rx.match(t)
            if fm:
                mode = fm.group(2)
                if mode is None:
                    ext = any('external_body' in a for a in pending_attr) or 'external_body' in t
                    # trait method declarations without body end with ';'
                    if not ext and not s.rstrip().endswith(';'):
                        raw_exec.append({'fn': fm.group(3), 'gen_line': i, 'vc_line': origin[1], 'text': s[:160]})
            if s and not s.startswith('#[') and not s.startswith('//'): pending_attr = []
    meta = {'unit': u.name, 'vc': vc_path, 'out': out_path, 'edition': u.edition, 'verus_args': u.verus_args,
            'items': items, 'rewrites': log, 'obligations': obs, 'trusted': trusted, 'raw_exec_fns': raw_exec,
            'assumed': [{'file': f, 'item': p, 'note': n} for f, p, n in u.assumed], 'imports': imports,
            'origins': [list(o) for o, _ in lines], 'n_lines': len(lines)}
    return meta

def _strip_lemma_bodies(sec):
    """Lemmas of an imported unit are discharged in their home unit: here they keep their statement only
    (`external_body`), so that an importing unit neither pays for nor destabilises proofs that are not its own."""
    out = []; i = 0; n = len(sec)
    rx = re.compile(r'^(\s*)(pub\s+)?(broadcast\s+)?proof fn\b')
    while i < n:
        no, t = sec[i]
        m = rx.match(t)
        if m and 'external_body' not in (sec[i - 1][1] if i else ''):
            ind = m.group(1)
            j = i + 1
            while j < n and sec[j][1].rstrip() not in (ind + '{', ind + '{}') and not rx.match(sec[j][1]) and not sec[j][1].startswith('@'): j += 1
            if j < n and sec[j][1].rstrip() == ind + '{}':
                out.append((no, ind + '#[verifier::external_body]'))
                out += sec[i:j]
                out.append((sec[j][0], ind + '{ unimplemented!() }'))
                i = j + 1; continue
            if j < n and sec[j][1].rstrip() == ind + '{':
                k = j + 1
                while k < n and sec[k][1].rstrip() != ind + '}': k += 1
                if k < n:
                    out.append((no, ind + '#[verifier::external_body]'))
                    out += sec[i:j]
                    out.append((sec[j][0], ind + '{ unimplemented!() }'))
                    i = k + 1; continue
        out.append((no, t)); i += 1
    return out

def import_interface(repo, vc_path, opts, cache):
    """The interface of another unit: its raw text (specs, lemmas, shims) and real type declarations as they are, and each
    of its real fns reduced to signature + contract with `external_body` -- i.e. exactly the contract that unit discharges."""
    u = parse_vc(vc_path)
    out = []; fns = []
    log = []
    for section in u.sections:
        kind, sec = section[0], section[1]
        if kind == 'raw':
            label = section[2] if len(section) > 2 else ''
            if label in ('header', 'footer') or label in opts['skip']: continue
            for no, t in _strip_lemma_bodies(sec):
                for a in opts['lits']:
                    if a[0] in t: t = t.replace(a[0], a[1])
                out.append((('import', u.name, no), t))
        elif kind == 'import':
            if 'unit:' + sec['unit'] in opts['skip']: continue   # the importer gets that unit through another import
            sub, _ = import_interface(repo, os.path.join(os.path.dirname(vc_path), sec['unit'] + '.vc'), {'unit': sec['unit'], 'lits': sec['lits'] + opts['lits'], 'skip': sec['skip'] + opts['skip']}, cache)
            out += [((o[0], o[1], o[2]) if o[0] == 'import' else ('import', u.name, 0), t) for o, t in sub]
        else:
            woven, info = weave_item(repo, sec, cache, log, u.unit_re)
            if info['kind'] != 'fn':
                out += [(('import', u.name, sec.vc_line), t) for _, t in woven]
                continue
            if sec.path in opts['skip']: continue
            fns.append(sec.path)
            pre = []
            for o, t in woven:
                if o[0] in ('code', 'code*') and t.strip().startswith('{'): break
                pre.append(t)
            ind = re.match(r'\s*', pre[0] if pre else '').group(0)
            # attributes in front of the signature stay in front; external_body goes first
            out.append((('import', u.name, sec.vc_line), ind + '#[verifier::external_body]'))
            for t in pre: out.append((('import', u.name, sec.vc_line), t))
            out.append((('import', u.name, sec.vc_line), ind + '{ unimplemented!() }'))
    return out, {'unit': u.name, 'fns_imported_by_contract': fns}

def learn_report(repo, vc_path):
    """Authoring aid: for every item print whether the template's baseline lines equal the extraction."""
    u = parse_vc(vc_path); cache = {}; ok = True
    for section in u.sections:
        kind, sec = section[0], section[1]
        if kind != 'item': continue
        log = []
        try:
            text, it = extract_item(repo, sec, cache)
            cur = [l for l in transform(text, it.kind, sec, log, u.unit_re).split('\n') if l.strip()]
        except WeaveError as e:
            print('!!', sec.path, e); ok = False; continue
        segs = split_template(sec.template)
        base = [c[1] for _, c in segs if c is not None]
        bn = [norm(l) for l in base]; cn = [norm(l) for l in cur]
        if bn == cn:
            print('ok  %-50s %3d code lines, %3d annotation lines' % (sec.path, len(cur), sum(len(c) for c, _ in segs)))
        else:
            ok = False
            print('DIFF %s' % sec.path)
            for l in difflib.unified_diff(bn, cn, 'template-baseline', 'repo', lineterm='', n=1):
                print('    ' + l)
    return ok
