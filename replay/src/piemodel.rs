//! Bounded exploration of the REAL `pie` crate through its public API: random small task programs with dynamic
//! require/read/write structure, random histories of external changes and builds, compared against a from-scratch build of
//! the same program on a fresh `Pie` instance (the differential oracle of C01/C02), plus injected violations (C05-C07),
//! injected panics (C19), failing checkers (C18) and look-alike task types (C15).  NOT a proof: bounds are printed.
use pie::resource::map::{GetGlobalMap, MapEqualsChecker, MapKey, MapWriter};
use pie::task::{AlwaysConsistent, EqualsChecker};
use pie::tracker::event::EventTracker;
use pie::tracker::{CompositeTracker, Tracker};
use pie::trait_object::{KeyObj, ValueObj};
use pie::{Context, Pie, ResourceChecker, ResourceState, Task};
use std::cell::{Cell, RefCell};
use std::collections::HashMap;
use std::error::Error;
use std::fmt::Debug;
use std::panic::{catch_unwind, AssertUnwindSafe};

#[derive(Clone, Copy, PartialEq, Eq, Hash, Debug)]
pub struct Res(pub u8);
impl MapKey for Res { type Value = u8; }

#[derive(Clone, Debug, PartialEq)]
pub enum Step {
  Read(u8, u8),        // resource, checker kind: 0 equals, 1 parity, 2 exists, 3 equals-but-check-fails-on-demand
  Require(u8, u8),     // task, checker kind: 0 equals, 1 always-consistent, 2 within-1-of-the-stamped-output
  Write(u8, u8),       // resource, constant added to the accumulator
  WrittenTo(u8, u8),   // resource: create_writer + written_to
  WriteFlaky(u8, u8),  // write with the checker whose `check` fails on demand
  WrittenToBadStamp(u8, u8), // the same, declared with a checker whose stamping fails: the task gets an Err back (and ignores it)
  IfOdd(Vec<Step>, Vec<Step>),
}
thread_local! {
  /// set when an end event of a `T(..)` task carries an output that is not the `u32` the task returned (e.g. a box of the box)
  static WRONG_OUTPUT_OBJECT: RefCell<Option<String>> = RefCell::new(None);
  static PROG: RefCell<Vec<Vec<Step>>> = RefCell::new(vec![]);
  static FAIL_CHECK: Cell<bool> = Cell::new(false);
  static PANIC_IN: Cell<Option<u8>> = Cell::new(None);
}

pub struct Fail { pub prop: &'static str, pub ob: &'static str, pub what: String }
macro_rules! fail { ($p:expr, $o:expr, $($t:tt)*) => { return Err(Fail { prop: $p, ob: $o, what: format!($($t)*) }) } }


// ---- checkers -------------------------------------------------------------------------------------------------------
#[derive(Copy, Clone, PartialEq, Eq, Hash, Debug)] pub struct ParityChecker;
impl ResourceChecker<Res> for ParityChecker {
  type Stamp = Option<u8>; type Error = std::convert::Infallible;
  fn stamp<RS: ResourceState<Res>>(&self, k: &Res, s: &mut RS) -> Result<Option<u8>, Self::Error> { Ok(s.get_global_map().get(k).map(|v| v % 2)) }
  fn stamp_reader(&self, _k: &Res, r: &mut Option<&u8>) -> Result<Option<u8>, Self::Error> { Ok(r.map(|v| v % 2)) }
  fn stamp_writer(&self, _k: &Res, w: MapWriter<'_, Res>) -> Result<Option<u8>, Self::Error> { Ok(w.get().map(|v| v % 2)) }
  fn check<RS: ResourceState<Res>>(&self, k: &Res, s: &mut RS, stamp: &Option<u8>) -> Result<Option<impl Debug>, Self::Error> {
    let now = s.get_global_map().get(k).map(|v| v % 2); Ok(if now != *stamp { Some(now) } else { None })
  }
  fn wrap_error(&self, e: std::convert::Infallible) -> Self::Error { e }
}
#[derive(Copy, Clone, PartialEq, Eq, Hash, Debug)] pub struct ExistsChecker;
impl ResourceChecker<Res> for ExistsChecker {
  type Stamp = bool; type Error = std::convert::Infallible;
  fn stamp<RS: ResourceState<Res>>(&self, k: &Res, s: &mut RS) -> Result<bool, Self::Error> { Ok(s.get_global_map().get(k).is_some()) }
  fn stamp_reader(&self, _k: &Res, r: &mut Option<&u8>) -> Result<bool, Self::Error> { Ok(r.is_some()) }
  fn stamp_writer(&self, _k: &Res, w: MapWriter<'_, Res>) -> Result<bool, Self::Error> { Ok(w.get().is_some()) }
  fn check<RS: ResourceState<Res>>(&self, k: &Res, s: &mut RS, stamp: &bool) -> Result<Option<impl Debug>, Self::Error> {
    let now = s.get_global_map().get(k).is_some(); Ok(if now != *stamp { Some(now) } else { None })
  }
  fn wrap_error(&self, e: std::convert::Infallible) -> Self::Error { e }
}
#[derive(Debug)] pub struct CheckFailed;
impl std::fmt::Display for CheckFailed { fn fmt(&self, f: &mut std::fmt::Formatter<'_>) -> std::fmt::Result { write!(f, "check failed on demand") } }
impl Error for CheckFailed {}
#[derive(Copy, Clone, PartialEq, Eq, Hash, Debug)] pub struct FlakyChecker;
impl ResourceChecker<Res> for FlakyChecker {
  type Stamp = Option<u8>; type Error = CheckFailed;
  fn stamp<RS: ResourceState<Res>>(&self, k: &Res, s: &mut RS) -> Result<Option<u8>, CheckFailed> { Ok(s.get_global_map().get(k).copied()) }
  fn stamp_reader(&self, _k: &Res, r: &mut Option<&u8>) -> Result<Option<u8>, CheckFailed> { Ok(r.copied()) }
  fn stamp_writer(&self, _k: &Res, w: MapWriter<'_, Res>) -> Result<Option<u8>, CheckFailed> { Ok(w.get().copied()) }
  fn check<RS: ResourceState<Res>>(&self, k: &Res, s: &mut RS, stamp: &Option<u8>) -> Result<Option<impl Debug>, CheckFailed> {
    if FAIL_CHECK.with(|f| f.get()) { return Err(CheckFailed); }
    let now = s.get_global_map().get(k).copied(); Ok(if now != *stamp { Some(now) } else { None })
  }
  fn wrap_error(&self, e: std::convert::Infallible) -> CheckFailed { match e {} }
}

/// a checker that cannot stamp at all (every stamping route fails)
#[derive(Copy, Clone, PartialEq, Eq, Hash, Debug)] pub struct StampFails;
impl ResourceChecker<Res> for StampFails {
  type Stamp = Option<u8>; type Error = CheckFailed;
  fn stamp<RS: ResourceState<Res>>(&self, _k: &Res, _s: &mut RS) -> Result<Option<u8>, CheckFailed> { Err(CheckFailed) }
  fn stamp_reader(&self, _k: &Res, _r: &mut Option<&u8>) -> Result<Option<u8>, CheckFailed> { Err(CheckFailed) }
  fn stamp_writer(&self, _k: &Res, _w: MapWriter<'_, Res>) -> Result<Option<u8>, CheckFailed> { Err(CheckFailed) }
  fn check<RS: ResourceState<Res>>(&self, _k: &Res, _s: &mut RS, _stamp: &Option<u8>) -> Result<Option<impl Debug>, CheckFailed> { Ok(None::<u8>) }
  fn wrap_error(&self, e: std::convert::Infallible) -> CheckFailed { match e {} }
}

// ---- tasks: two types with identical fields, hash and debug text ----------------------------------------------------
#[derive(Clone, PartialEq, Eq, Hash)] pub struct T(pub u8);
#[derive(Clone, PartialEq, Eq, Hash)] pub struct U(pub u8);
impl Debug for T { fn fmt(&self, f: &mut std::fmt::Formatter<'_>) -> std::fmt::Result { write!(f, "T({})", self.0) } }
impl Debug for U { fn fmt(&self, f: &mut std::fmt::Formatter<'_>) -> std::fmt::Result { write!(f, "T({})", self.0) } }
impl Task for T { type Output = u32; fn execute<C: Context>(&self, c: &mut C) -> u32 { run(self.0, c, 0) } }
impl Task for U { type Output = u32; fn execute<C: Context>(&self, c: &mut C) -> u32 { run(self.0, c, 100_000) } }

thread_local! { static ACTIVE: RefCell<Vec<(u8, u32)>> = RefCell::new(vec![]); }
struct ActiveGuard;
impl Drop for ActiveGuard { fn drop(&mut self) { ACTIVE.with(|a| { a.borrow_mut().pop(); }); } }
fn run<C: Context>(id: u8, c: &mut C, tag: u32) -> u32 {
  // a task that is entered while it is still executing would recurse without bound: stop the experiment instead
  if ACTIVE.with(|a| a.borrow().contains(&(id, tag))) { panic!("HARNESS: task {} was executed a second time while it was still executing", id); }
  ACTIVE.with(|a| a.borrow_mut().push((id, tag)));
  let _guard = ActiveGuard;
  if PANIC_IN.with(|p| p.get()) == Some(id) { panic!("injected panic in task {}", id); }
  let steps = PROG.with(|p| p.borrow()[id as usize].clone());
  let mut acc: u32 = id as u32 + 1 + tag;
  exec(&steps, c, &mut acc);
  RAN.with(|r| r.borrow_mut().push((format!("T({})", id), format!("{:?}", acc))));
  acc
}
fn mix(acc: &mut u32, v: u32) { *acc = acc.wrapping_mul(31).wrapping_add(v) % 1_000_003; }
fn seen(kind: &str, subject: String, stamp: String) { SEEN.with(|s| s.borrow_mut().push((kind.to_string(), subject, stamp, String::new()))); }
fn seen_require(subject: String, stamp: String, returned: String) { SEEN.with(|s| s.borrow_mut().push(("require".to_string(), subject, stamp, returned))); }
fn exec<C: Context>(steps: &[Step], c: &mut C, acc: &mut u32) {
  for s in steps {
    match s {
      Step::Read(r, k) => {
        // the accumulator only takes in what the checker observes
        let v: Option<u8> = match k {
          0 => c.read(&Res(*r), MapEqualsChecker).unwrap().copied(),
          1 => c.read(&Res(*r), ParityChecker).unwrap().copied(),
          2 => c.read(&Res(*r), ExistsChecker).unwrap().copied(),
          _ => c.read(&Res(*r), FlakyChecker).unwrap().copied(),
        };
        let (observed, stamp): (u32, String) = match k {
          1 => (v.map(|x| (x % 2) as u32 + 1).unwrap_or(0), format!("{:?}", v.map(|x| x % 2))),
          2 => (v.is_some() as u32, format!("{:?}", v.is_some())),
          _ => (v.map(|x| x as u32 + 1).unwrap_or(0), format!("{:?}", v)),
        };
        seen("read", format!("Res({})", r), stamp);
        mix(acc, observed);
      }
      Step::Require(t, k) => {
        if *k == 0 { let o = c.require(&T(*t), EqualsChecker); seen_require(format!("T({})", t), format!("{:?}", o), format!("{:?}", o)); mix(acc, o); }
        else if *k == 2 { let o = c.require(&T(*t), Within1); seen_require(format!("T({})", t), format!("{:?}", o), format!("{:?}", o)); }   // (the exact value is not mixed in: the requirer only observes what the coarse checker does)
        else { let o = c.require(&T(*t), AlwaysConsistent); seen_require(format!("T({})", t), "()".to_string(), format!("{:?}", o)); }
      }
      Step::Write(r, add) => {
        let val = (*acc as u8).wrapping_add(*add);
        c.write(&Res(*r), MapEqualsChecker, |w| { w.insert(val); Ok(()) }).unwrap();
        SHADOW.with(|m| { m.borrow_mut().insert(*r, val); });
        seen("write", format!("Res({})", r), format!("{:?}", Some(val)));
      }
      Step::WrittenTo(r, add) => {
        let val = (*acc as u8).wrapping_add(*add);
        { let key = Res(*r); let mut w = c.create_writer(&key).unwrap(); w.insert(val); }
        SHADOW.with(|m| { m.borrow_mut().insert(*r, val); });
        c.written_to(&Res(*r), MapEqualsChecker).unwrap();
        seen("write", format!("Res({})", r), format!("{:?}", Some(val)));
      }
      Step::WriteFlaky(r, add) => {
        let val = (*acc as u8).wrapping_add(*add);
        c.write(&Res(*r), FlakyChecker, |w| { w.insert(val); Ok(()) }).unwrap();
        SHADOW.with(|m| { m.borrow_mut().insert(*r, val); });
        seen("write", format!("Res({})", r), format!("{:?}", Some(val)));
      }
      Step::WrittenToBadStamp(r, add) => {
        let val = (*acc as u8).wrapping_add(*add);
        { let key = Res(*r); let mut w = c.create_writer(&key).unwrap(); w.insert(val); }
        SHADOW.with(|m| { m.borrow_mut().insert(*r, val); });
        let _ = c.written_to(&Res(*r), StampFails);
      }
      Step::IfOdd(a, b) => { if *acc % 2 == 1 { exec(a, c, acc) } else { exec(b, c, acc) } }
    }
  }
}

// ---- recording tracker: the full event stream, with checker, stamp, verdict and the verdict this harness expects -------
thread_local! {
  /// what the harness knows the map to hold right now (external changes and task writes), for verdict recomputation
  static SHADOW: RefCell<HashMap<u8, u8>> = RefCell::new(HashMap::new());
  /// what the executing tasks saw / got back, in order: (kind, subject, stamp the dependency must carry)
  static SEEN: RefCell<Vec<(String, String, String, String)>> = RefCell::new(vec![]);
  /// (task, output) of every execution that really ran to completion
  static RAN: RefCell<Vec<(String, String)>> = RefCell::new(vec![]);
}
#[derive(Clone, Debug, PartialEq, Default)]
pub struct Evt { pub start: bool, pub kind: &'static str, pub subject: String, pub checker: String, pub stamp: String, pub verdict: &'static str, pub expected: &'static str, pub output: String }
#[derive(Default, Clone)]
pub struct Log { pub ev: Vec<Evt>, pending_expected: Vec<&'static str> }
fn d(x: &dyn Debug) -> String { format!("{:?}", x) }
fn expected_resource_verdict(subject: &str, checker: &str, stamp: &str) -> &'static str {
  let r: u8 = subject.trim_start_matches("Res(").trim_end_matches(')').parse().unwrap_or(255);
  let cur = SHADOW.with(|m| m.borrow().get(&r).copied());
  let now = match checker { "ParityChecker" => d(&cur.map(|v| v % 2)), "ExistsChecker" => d(&cur.is_some()), _ => d(&cur) };
  if checker == "FlakyChecker" && FAIL_CHECK.with(|f| f.get()) { "error" } else if now == stamp { "consistent" } else { "inconsistent" }
}
impl Log {
  fn st(&mut self, kind: &'static str, s: &dyn Debug, checker: String, stamp: String) { self.ev.push(Evt { start: true, kind, subject: d(s), checker, stamp, ..Evt::default() }); }
  fn en(&mut self, kind: &'static str, s: &dyn Debug, checker: String, stamp: String, verdict: &'static str, output: String) { self.ev.push(Evt { start: false, kind, subject: d(s), checker, stamp, verdict, output, ..Evt::default() }); }
  pub fn well_nested(&self) -> Result<(), String> {
    let mut stack: Vec<(&str, &str)> = vec![];
    for e in &self.ev {
      if e.kind == "schedule" { continue; }
      if e.start { stack.push((e.kind, &e.subject)); }
      else { let top = stack.pop(); if top != Some((e.kind, &e.subject)) { return Err(format!("end of {} {} closes {:?}", e.kind, e.subject, top)); } }
    }
    if stack.is_empty() { Ok(()) } else { Err(format!("unclosed starts {:?}", stack)) }
  }
  pub fn executed(&self) -> Vec<String> { self.ev.iter().filter(|e| e.start && e.kind == "execute").map(|e| e.subject.clone()).collect() }
}
fn vd(x: Option<&dyn Debug>) -> &'static str { if x.is_some() { "inconsistent" } else { "consistent" } }
fn vr(x: Result<Option<&dyn Debug>, &dyn Error>) -> &'static str { match x { Ok(None) => "consistent", Ok(Some(_)) => "inconsistent", Err(_) => "error" } }
/// the output object handed to an end event must BE the task's output (down-castable to its type), not a wrapper that merely prints alike
fn note_output_object(which: &str, t: &dyn KeyObj, o: &dyn ValueObj) {
  let name = d(&t);
  if name.starts_with("T(") && o.as_any().downcast_ref::<u32>().is_none() {
    WRONG_OUTPUT_OBJECT.with(|w| { if w.borrow().is_none() { *w.borrow_mut() = Some(format!("{} of {} carries an output object that prints {:?} but is not the u32 the task returned", which, name, o)); } });
  }
}
impl Tracker for Log {
  fn build_start(&mut self) { self.st("build", &(), String::new(), String::new()) } fn build_end(&mut self) { self.en("build", &(), String::new(), String::new(), "", String::new()) }
  fn require_start(&mut self, t: &dyn KeyObj, c: &dyn ValueObj) { self.st("require", &t, d(&c), String::new()) }
  fn require_end(&mut self, t: &dyn KeyObj, c: &dyn ValueObj, s: &dyn ValueObj, o: &dyn ValueObj) { note_output_object("require_end", t, o); self.en("require", &t, d(&c), d(&s), "", d(&o)) }
  fn read_start(&mut self, r: &dyn KeyObj, c: &dyn ValueObj) { self.st("read", &r, d(&c), String::new()) } fn read_end(&mut self, r: &dyn KeyObj, c: &dyn ValueObj, s: &dyn ValueObj) { self.en("read", &r, d(&c), d(&s), "", String::new()) }
  fn write_start(&mut self, r: &dyn KeyObj, c: &dyn ValueObj) { self.st("write", &r, d(&c), String::new()) } fn write_end(&mut self, r: &dyn KeyObj, c: &dyn ValueObj, s: &dyn ValueObj) { self.en("write", &r, d(&c), d(&s), "", String::new()) }
  fn check_task_start(&mut self, t: &dyn KeyObj, c: &dyn ValueObj, s: &dyn ValueObj) { self.st("check_task", &t, d(&c), d(&s)) }
  fn check_task_end(&mut self, t: &dyn KeyObj, c: &dyn ValueObj, s: &dyn ValueObj, i: Option<&dyn Debug>) { self.en("check_task", &t, d(&c), d(&s), vd(i), String::new()) }
  fn check_resource_start(&mut self, r: &dyn KeyObj, c: &dyn ValueObj, s: &dyn ValueObj) { let x = expected_resource_verdict(&d(&r), &d(&c), &d(&s)); self.pending_expected.push(x); self.st("check_resource", &r, d(&c), d(&s)) }
  fn check_resource_end(&mut self, r: &dyn KeyObj, c: &dyn ValueObj, s: &dyn ValueObj, i: Result<Option<&dyn Debug>, &dyn Error>) { let x = self.pending_expected.pop().unwrap_or(""); self.en("check_resource", &r, d(&c), d(&s), vr(i), String::new()); self.ev.last_mut().unwrap().expected = x; }
  fn execute_start(&mut self, t: &dyn KeyObj) { self.st("execute", &t, String::new(), String::new()) } fn execute_end(&mut self, t: &dyn KeyObj, o: &dyn ValueObj) { note_output_object("execute_end", t, o); self.en("execute", &t, String::new(), String::new(), "", d(&o)) }
  fn schedule_affected_by_task_start(&mut self, t: &dyn KeyObj) { self.st("sched_task", &t, String::new(), String::new()) } fn schedule_affected_by_task_end(&mut self, t: &dyn KeyObj) { self.en("sched_task", &t, String::new(), String::new(), "", String::new()) }
  fn check_task_require_task_start(&mut self, t: &dyn KeyObj, c: &dyn ValueObj, s: &dyn ValueObj) { self.st("check_req", &t, d(&c), d(&s)) }
  fn check_task_require_task_end(&mut self, t: &dyn KeyObj, c: &dyn ValueObj, s: &dyn ValueObj, i: Option<&dyn Debug>) { self.en("check_req", &t, d(&c), d(&s), vd(i), String::new()) }
  fn schedule_affected_by_resource_start(&mut self, r: &dyn KeyObj) { self.st("sched_res", &r, String::new(), String::new()) } fn schedule_affected_by_resource_end(&mut self, r: &dyn KeyObj) { self.en("sched_res", &r, String::new(), String::new(), "", String::new()) }
  fn check_task_read_resource_start(&mut self, t: &dyn KeyObj, c: &dyn ValueObj, s: &dyn ValueObj) { self.st("check_read", &t, d(&c), d(&s)) }
  fn check_task_read_resource_end(&mut self, t: &dyn KeyObj, c: &dyn ValueObj, s: &dyn ValueObj, i: Result<Option<&dyn Debug>, &dyn Error>) { self.en("check_read", &t, d(&c), d(&s), vr(i), String::new()) }
  fn schedule_task(&mut self, t: &dyn KeyObj) { self.ev.push(Evt { start: true, kind: "schedule", subject: d(&t), ..Evt::default() }); }
}
type P = Pie<CompositeTracker<Log, CompositeTracker<Log, EventTracker>>>;
fn new_pie() -> P { Pie::with_tracker(CompositeTracker::new(Log::default(), CompositeTracker::new(Log::default(), EventTracker::default()))) }
fn map_of(p: &mut P) -> HashMap<Res, u8> { p.resource_state_mut::<Res>().get_global_map().clone() }
fn set_map(p: &mut P, m: &HashMap<Res, u8>) { *p.resource_state_mut::<Res>().get_global_map_mut() = m.clone(); }
fn clear_logs(p: &mut P) { p.tracker_mut().0.ev.clear(); p.tracker_mut().1 .0.ev.clear(); SEEN.with(|s| s.borrow_mut().clear()); RAN.with(|s| s.borrow_mut().clear()); }
fn sync_shadow(p: &mut P) { let m = map_of(p); SHADOW.with(|s| { let mut s = s.borrow_mut(); s.clear(); for (k, v) in m.iter() { s.insert(k.0, *v); } }); }

// ---- the session as a tree, and the model of what the instance must remember ------------------------------------------
#[derive(Clone, Debug, Default)]
pub struct Node { pub kind: &'static str, pub subject: String, pub checker: String, pub stamp: String, pub verdict: &'static str, pub expected: &'static str, pub output: String, pub closed: bool, pub children: Vec<Node> }
fn tree(ev: &[Evt]) -> Vec<Node> {
  let mut stack: Vec<Node> = vec![Node::default()];
  for e in ev {
    if e.kind == "schedule" { continue; }
    if e.start { stack.push(Node { kind: e.kind, subject: e.subject.clone(), checker: e.checker.clone(), stamp: e.stamp.clone(), ..Node::default() }); }
    else if stack.len() > 1 { let mut n = stack.pop().unwrap(); n.closed = true; n.verdict = e.verdict; n.expected = e.expected; n.output = e.output.clone(); if !e.stamp.is_empty() { n.stamp = e.stamp.clone(); } stack.last_mut().unwrap().children.push(n); }
  }
  while stack.len() > 1 { let n = stack.pop().unwrap(); stack.last_mut().unwrap().children.push(n); }
  stack.pop().unwrap().children
}
#[derive(Clone, Debug, PartialEq)]
pub struct Dep { pub kind: &'static str, pub subject: String, pub checker: String, pub stamp: String }
#[derive(Default)]
pub struct Model { pub completed: std::collections::HashSet<String>, pub deps: HashMap<String, Vec<Dep>>, pub out: HashMap<String, String> }
pub struct Walk<'m> { m: &'m mut Model, strict: bool, consistent: std::collections::HashSet<String>, top_down: bool }
impl<'m> Walk<'m> {
  fn visit(&mut self, n: &Node) -> Result<(), Fail> {
    match n.kind {
      "require" | "check_task" if self.top_down => {
        let t = n.subject.clone();
        if self.consistent.contains(&t) {
          if self.strict && !n.children.is_empty() { fail!("C02", "C02.bounded.executed_at_most_once_per_session", "{} was validated or executed again ({} events) after it had been made consistent in this session", t, n.children.len()); }
        } else { self.make_consistent(&t, n)?; }
        if n.kind == "check_task" && self.strict && n.closed {
          let exp = if n.checker == "AlwaysConsistent" { "consistent" } else if self.m.out.get(&t) == Some(&n.stamp) { "consistent" } else { "inconsistent" };
          let exp = if n.checker == "Within1" { match (self.m.out.get(&t).and_then(|o| o.parse::<u32>().ok()), n.stamp.parse::<u32>().ok()) { (Some(o), Some(st)) => if o.abs_diff(st) > 1 { "inconsistent" } else { "consistent" }, _ => exp } } else { exp };
          if n.checker == "AlwaysConsistent" || n.checker == "EqualsChecker" || n.checker == "Within1" { if n.verdict != exp { fail!("C09", "C09.bounded.verdict_is_the_checkers_verdict_on_the_creation_stamp", "require dependency on {} with {} and stamp {} was reported {} although the task's output is {:?}", t, n.checker, n.stamp, n.verdict, self.m.out.get(&t)); } }
        }
        Ok(())
      }
      "execute" => self.execute(n),
      _ => { for c in &n.children { self.visit(c)?; } Ok(()) }
    }
  }
  fn make_consistent(&mut self, t: &str, n: &Node) -> Result<(), Fail> {
    let exec = n.children.last().filter(|c| c.kind == "execute" && c.subject == t);
    let checks: &[Node] = if exec.is_some() { &n.children[..n.children.len() - 1] } else { &n.children[..] };
    let known = self.m.completed.contains(t);
    let deps = self.m.deps.get(t).cloned().unwrap_or_default();
    let all_closed = n.closed && checks.iter().all(|c| c.closed);
    for c in checks { self.visit_check(c)?; }
    if self.strict && all_closed {
      if !known {
        if exec.is_none() { fail!("C02", "C02.bounded.never_completed_task_is_executed", "{} has never completed but was not executed", t); }
      } else {
        let mut i = 0usize;
        for (k, c) in checks.iter().enumerate() {
          let ck = match c.kind { "check_task" => "require", _ => "resource" };
          let pos = deps.iter().position(|dd| dd.subject == c.subject && (dd.kind == "require") == (ck == "require"));
          match pos {
            None => fail!("C08", "C08.bounded.validated_dependencies_are_those_of_the_latest_execution", "validation of {} checked {} {}, which its latest execution did not use (dependencies of that execution: {:?})", t, c.kind, c.subject, deps),
            Some(p) if p < i => fail!("C02", "C02.bounded.dependencies_validated_in_creation_order", "validation of {} checked {} out of order (dependencies {:?})", t, c.subject, deps),
            Some(p) if p > i => fail!("C09", "C09.bounded.every_dependency_is_decided_by_its_own_checker", "validation of {} went on to {} without asking the checker of the earlier dependency on {} ({:?})", t, c.subject, deps[i].subject, deps[i]),
            Some(p) => {
              let dd = &deps[p];
              if dd.checker != c.checker || dd.stamp != c.stamp { fail!("C09", "C09.bounded.check_uses_checker_and_stamp_of_the_dependency", "dependency of {} on {} was created with {} / stamp {} but checked with {} / stamp {}", t, c.subject, dd.checker, dd.stamp, c.checker, c.stamp); }
              i = p + 1;
            }
          }
          let last = k + 1 == checks.len();
          if c.verdict != "consistent" && !last { fail!(if c.verdict == "error" { "C18" } else { "C09" }, if c.verdict == "error" { "C18.bounded.failed_check_means_inconsistent" } else { "C09.bounded.inconsistent_dependency_causes_reexecution" }, "validation of {} went on after its dependency on {} was reported {}", t, c.subject, c.verdict); }
        }
        let verdict_last = checks.last().map(|c| c.verdict).unwrap_or("consistent");
        if verdict_last == "consistent" {
          if i < deps.len() && exec.is_none() { fail!("C09", "C09.bounded.every_dependency_is_decided_by_its_own_checker", "{} was reused although its dependency {:?} was never checked", t, deps[i]); }
          if i >= deps.len() && exec.is_some() { fail!("C02", "C02.bounded.executed_only_if_a_dependency_is_inconsistent", "{} was executed although all dependencies of its latest execution were reported consistent ({:?})", t, deps); }
          if i < deps.len() && exec.is_some() { fail!("C09", "C09.bounded.every_dependency_is_decided_by_its_own_checker", "{} was executed without any checker reporting an inconsistency; dependency {:?} was never checked", t, deps[i]); }
        } else if exec.is_none() {
          fail!(if verdict_last == "error" { "C18" } else { "C09" }, if verdict_last == "error" { "C18.bounded.failed_check_means_inconsistent" } else { "C09.bounded.inconsistent_dependency_causes_reexecution" }, "{} was reused although its dependency on {} was reported {}", t, checks.last().unwrap().subject, verdict_last);
        }
      }
    }
    if let Some(e) = exec { self.execute(e)?; }
    if n.closed { self.consistent.insert(t.to_string()); }
    Ok(())
  }
  fn visit_check(&mut self, c: &Node) -> Result<(), Fail> {
    if c.kind == "check_resource" && self.strict && c.closed && !c.expected.is_empty() && c.verdict != c.expected {
      fail!("C09", "C09.bounded.verdict_is_the_checkers_verdict_on_the_creation_stamp", "check of {} with {} against stamp {} was reported {}, the checker says {}", c.subject, c.checker, c.stamp, c.verdict, c.expected);
    }
    self.visit(c)
  }
  fn execute(&mut self, e: &Node) -> Result<(), Fail> {
    let t = e.subject.clone();
    self.m.completed.remove(&t); self.m.deps.remove(&t);   // reset first: an abort leaves it not completed
    let mut deps: Vec<Dep> = vec![];
    for c in &e.children {
      self.visit(c)?;
      if !c.closed { continue; }
      let kind = match c.kind { "require" => "require", "read" => "read", "write" => "write", _ => continue };
      let is_req = kind == "require";
      if let Some(p) = deps.iter().position(|dd| dd.subject == c.subject && (dd.kind == "require") == is_req) {
        if is_req { deps[p].checker = c.checker.clone(); deps[p].stamp = c.stamp.clone(); }   // position of the first, data of the last
      } else { deps.push(Dep { kind, subject: c.subject.clone(), checker: c.checker.clone(), stamp: c.stamp.clone() }); }
    }
    if e.closed { self.m.completed.insert(t.clone()); self.m.deps.insert(t.clone(), deps); self.m.out.insert(t, e.output.clone()); }
    Ok(())
  }
}
/// does task `a` (transitively) require task `b` according to the dependencies of the latest executions?
fn model_reaches(m: &Model, a: &str, b: &str) -> bool {
  let mut seen: Vec<String> = vec![]; let mut st: Vec<String> = vec![a.to_string()];
  while let Some(x) = st.pop() {
    if seen.contains(&x) { continue; } seen.push(x.clone());
    if let Some(ds) = m.deps.get(&x) { for d in ds { if d.kind == "require" { if d.subject == b { return true; } st.push(d.subject.clone()); } } }
  }
  false
}
/// walks one session; `strict` sessions returned normally and are held to the trace obligations
pub fn walk_session(m: &mut Model, ev: &[Evt], strict: bool, top_down: bool) -> Result<(), Fail> {
  let t = tree(ev);
  let mut w = Walk { m, strict, consistent: Default::default(), top_down };
  for n in &t { w.visit(n)?; }
  Ok(())
}

// ---- program / history generation -----------------------------------------------------------------------------------
pub struct Rng(pub u64);
impl Rng { pub fn next(&mut self) -> u64 { self.0 ^= self.0 << 13; self.0 ^= self.0 >> 7; self.0 ^= self.0 << 17; self.0 } pub fn below(&mut self, n: usize) -> usize { (self.next() % n as u64) as usize } }

const SOURCES: u8 = 2;   // resources 0,1 are never written by tasks; 2,3 may be generated
/// a well-formed program: requires go to higher task ids (no cycle); each generated resource has one writer; a reader of a
/// generated resource requires its writer first; one checker per target per execution
pub fn gen_program(rng: &mut Rng) -> (Vec<Vec<Step>>, [Option<u8>; 2]) { let n = 2 + rng.below(4); gen_program_n(rng, n) }
pub fn gen_program_n(rng: &mut Rng, n: usize) -> (Vec<Vec<Step>>, [Option<u8>; 2]) {
  let mut writer: [Option<u8>; 2] = [None, None];
  for g in 0..2 { if rng.below(3) > 0 { writer[g] = Some(rng.below(n) as u8); } }
  let mut prog = vec![];
  for i in 0..n {
    let mut steps = vec![]; let mut used_res: Vec<u8> = vec![]; let mut required: Vec<u8> = vec![]; let mut cond_required: Vec<u8> = vec![];
    let k = 1 + rng.below(4);
    for _ in 0..k {
      match rng.below(6) {
        0 | 1 => { let r = rng.below(SOURCES as usize) as u8; if !used_res.contains(&r) { used_res.push(r); steps.push(Step::Read(r, [0, 0, 1, 2, 3][rng.below(5)])); } else { steps.push(Step::Read(r, match steps.iter().find_map(|s| if let Step::Read(rr, kk) = s { if *rr == r { Some(*kk) } else { None } } else { None }) { Some(kk) => kk, None => 0 })); } }
        2 | 3 => { if i + 1 < n { let t = (i + 1 + rng.below(n - i - 1)) as u8; if !required.contains(&t) && !cond_required.contains(&t) { required.push(t); steps.push(Step::Require(t, if rng.below(4) == 0 { 1 } else { 0 })); } } }
        4 => { // read a generated resource: require its writer first
          let g = rng.below(2); if let Some(w) = writer[g] { if (w as usize) > i && !used_res.contains(&(2 + g as u8)) {
            if !required.contains(&w) { required.push(w); steps.push(Step::Require(w, 0)); }
            used_res.push(2 + g as u8); steps.push(Step::Read(2 + g as u8, 0));
          } }
        }
        _ => { if i + 1 < n && rng.below(2) == 0 { let t = (i + 1 + rng.below(n - i - 1)) as u8; let r = rng.below(SOURCES as usize) as u8;
            if !required.contains(&t) && !cond_required.contains(&t) && !used_res.contains(&r) { cond_required.push(t); used_res.push(r); steps.push(Step::IfOdd(vec![Step::Require(t, 0)], vec![Step::Read(r, 0)])); } } }
      }
    }
    for g in 0..2 { if writer[g] == Some(i as u8) { if rng.below(4) == 0 { steps.push(Step::WrittenTo(2 + g as u8, rng.below(3) as u8)); } else { steps.push(Step::Write(2 + g as u8, rng.below(3) as u8)); } } }
    prog.push(steps);
  }
  (prog, writer)
}

/// an abort that is neither one of the three diagnosed violations nor the harness' own injected panic: an internal-invariant error
/// (`BUG…`, `unreachable!`, `unwrap()` on `None`, `expect`, an index out of bounds, …)
fn is_internal_error(m: &str) -> bool {
  !(m.starts_with("Hidden dependency") || m.starts_with("Overlapping write") || m.starts_with("Cyclic task dependency") || m.starts_with("injected") || m.starts_with("HARNESS") || m.starts_with("harness"))
}
fn panic_msg(e: Box<dyn std::any::Any + Send>) -> String { ACTIVE.with(|a| a.borrow_mut().clear()); e.downcast_ref::<String>().cloned().or_else(|| e.downcast_ref::<&str>().map(|s| s.to_string())).unwrap_or_default() }

/// from-scratch build of `root` on a fresh instance holding the same resource values
fn fresh_build(m: &HashMap<Res, u8>, root: u8) -> Result<(u32, Vec<String>, HashMap<Res, u8>), String> {
  let (sh, se, ra) = (SHADOW.with(|s| s.borrow().clone()), SEEN.with(|s| s.borrow().clone()), RAN.with(|s| s.borrow().clone()));
  let fc = FAIL_CHECK.with(|f| f.replace(false));
  let mut f = new_pie(); set_map(&mut f, m);
  let r = catch_unwind(AssertUnwindSafe(|| f.new_session().require(&T(root))));
  let res = match r { Ok(o) => { let ex = f.tracker().0.executed(); Ok((o, ex, map_of(&mut f))) }, Err(e) => Err(panic_msg(e)) };
  SHADOW.with(|s| *s.borrow_mut() = sh); SEEN.with(|s| *s.borrow_mut() = se); RAN.with(|s| *s.borrow_mut() = ra); FAIL_CHECK.with(|f| f.set(fc));
  res
}

#[derive(Clone, Debug)]
pub enum Act { Set(u8, u8), Del(u8), TopDown(u8), TopDownFlaky(u8), BottomUp, BottomUpFlaky, PanicIn(u8, u8) }

/// obligations on the stream of one session that returned: nesting, composite fan-out, executions, stamps
fn stream_obligations(pie: &P) -> Result<(), Fail> {
  if let Some(w) = WRONG_OUTPUT_OBJECT.with(|w| w.borrow_mut().take()) { fail!("C17", "C17.bounded.end_events_carry_the_output_itself", "{}", w); }
  let log0 = &pie.tracker().0; let log1 = &pie.tracker().1 .0;
  if log0.ev != log1.ev { fail!("C17", "C17.bounded.composite_children_get_identical_streams", "composite children saw different streams"); }
  if let Err(w) = log0.well_nested() { fail!("C17", "C17.bounded.event_stream_well_nested", "{}", w); }
  // the build that just completed (logs are cleared before each build) is reported: exactly one build-start and one build-end, the
  // build-end last (`schedule_tasks_affected_by` calls of a bottom-up build legitimately precede its build-start)
  let starts = log0.ev.iter().filter(|e| e.kind == "build" && e.start).count();
  let ends_n = log0.ev.iter().filter(|e| e.kind == "build" && !e.start).count();
  let end_last = log0.ev.last().map(|e| e.kind == "build" && !e.start).unwrap_or(false);
  if starts != 1 || ends_n != 1 || !end_last { fail!("C17", "C17.bounded.every_completed_build_emits_its_start_and_end", "a completed build produced {} build-start and {} build-end events ({} events in all; last {:?})", starts, ends_n, log0.ev.len(), log0.ev.last().map(|e| (&e.kind, e.start))); }
  let ran = RAN.with(|r| r.borrow().clone());
  let ends: Vec<(String, String)> = log0.ev.iter().filter(|e| !e.start && e.kind == "execute").map(|e| (e.subject.clone(), e.output.clone())).collect();
  if ran != ends { fail!("C17", "C17.bounded.every_execution_appears_once_with_its_output", "executions that ran {:?}, execute-end events {:?}", ran, ends); }
  // stamps of the dependencies created inside executing tasks are what the task saw / wrote / got back
  let mut depth = 0i32; let mut got: Vec<(String, String, String, String)> = vec![];
  for e in &log0.ev {
    if e.kind == "execute" { depth += if e.start { 1 } else { -1 }; }
    if !e.start && depth > 0 && (e.kind == "read" || e.kind == "write" || e.kind == "require") { got.push((e.kind.to_string(), e.subject.clone(), e.stamp.clone(), if e.kind == "require" { e.output.clone() } else { String::new() })); }
  }
  let seen = SEEN.with(|s| s.borrow().clone());
  for (i, (g, w)) in got.iter().zip(seen.iter()).enumerate() {
    if g.0 == "require" && w.0 == "require" && g.1 == w.1 && g.3 != w.3 { fail!("C17", "C17.bounded.require_end_carries_the_returned_value", "require-end event #{} of {} carries output {}, the caller got {}", i, g.1, g.3, w.3); }
  }
  if got != seen {
    let i = got.iter().zip(seen.iter()).position(|(a, b)| a != b).unwrap_or(got.len().min(seen.len()));
    fail!("C09", "C09.bounded.stamp_is_what_the_task_saw", "dependency #{}: stamped {:?}, the task saw {:?}", i, got.get(i), seen.get(i));
  }
  Ok(())
}

/// runs one (program, history) case; all comparisons are against the real crate itself on a fresh instance, and against a
/// model of what the instance must remember that is rebuilt from the event stream of each session
pub fn run_case(prog: &Vec<Vec<Step>>, hist: &[Act]) -> Result<(), Fail> {
  PROG.with(|p| *p.borrow_mut() = prog.clone());
  FAIL_CHECK.with(|f| f.set(false)); PANIC_IN.with(|p| p.set(None));
  let n = prog.len() as u8;
  let mut pie = new_pie();
  let mut model = Model::default();
  let mut changed: Vec<u8> = vec![];
  for a in hist {
    match a {
      Act::Set(r, v) => { pie.resource_state_mut::<Res>().get_global_map_mut().insert(Res(*r), *v); if !changed.contains(r) { changed.push(*r); } }
      Act::Del(r) => { pie.resource_state_mut::<Res>().get_global_map_mut().remove(&Res(*r)); if !changed.contains(r) { changed.push(*r); } }
      Act::TopDown(root) | Act::TopDownFlaky(root) => {
        let root = *root % n; let flaky = matches!(a, Act::TopDownFlaky(_));
        let before = map_of(&mut pie);
        let fresh = fresh_build(&before, root);
        clear_logs(&mut pie); sync_shadow(&mut pie);
        FAIL_CHECK.with(|f| f.set(flaky));
        let r = catch_unwind(AssertUnwindSafe(|| { let mut s = pie.new_session(); let o = s.require(&T(root)); let errs = s.dependency_check_errors().len(); (o, errs) }));
        FAIL_CHECK.with(|f| f.set(false));
        let (out, errs) = match r { Ok(x) => x, Err(e) => { let m = panic_msg(e);
          if is_internal_error(&m) { fail!("C19", "C19.bounded.no_internal_invariant_error", "top-down require(T({})) panicked: {}", root, m); }
          fail!("C20", "C20.bounded.well_formed_program_never_aborts", "top-down require(T({})) of a well-formed program panicked: {}", root, m); } };
        // trace obligations first: they name the step that went wrong; the differential comparison comes after
        let ev = pie.tracker().0.ev.clone();
        stream_obligations(&pie)?;
        walk_session(&mut model, &ev, true, true)?;
        let failed_checks = ev.iter().filter(|e| !e.start && e.verdict == "error").count();
        if errs != failed_checks { fail!("C18", "C18.bounded.check_errors_are_reported", "{} checks failed with an error, the session reports {} dependency check errors", failed_checks, errs); }
        let ex = pie.tracker().0.executed();
        for (i, e) in ex.iter().enumerate() { if ex[..i].contains(e) { fail!("C02", "C02.bounded.executed_at_most_once_per_session", "{} executed twice in one session", e); } }
        let (fout, fexec, fmap) = match fresh { Ok(x) => x, Err(m) => fail!("C20", "C20.bounded.well_formed_program_never_aborts", "from-scratch build panicked: {}", m) };
        for e in &ex { if !fexec.contains(e) { fail!("C02", "C02.bounded.executes_only_what_a_from_scratch_build_executes", "{} was executed, a from-scratch build of the current state does not execute it (executed {:?}, from scratch {:?})", e, ex, fexec); } }
        if out != fout { fail!("C01", "C01.bounded.output_equals_from_scratch", "require(T({})) returned {} but a from-scratch build returns {}", root, out, fout); }
        let after = map_of(&mut pie);
        if after != fmap { fail!("C01", "C01.bounded.written_resources_equal_from_scratch", "resources after the incremental build {:?} differ from the from-scratch build {:?}", after, fmap); }
        // requiring again with nothing changed executes nothing
        clear_logs(&mut pie); sync_shadow(&mut pie);
        let again = catch_unwind(AssertUnwindSafe(|| pie.new_session().require(&T(root))));
        match again { Ok(o2) => {
            let ex2 = pie.tracker().0.executed(); if !ex2.is_empty() { fail!("C02", "C02.bounded.requiring_again_executes_nothing", "requiring T({}) again with nothing changed executed {:?}", root, ex2); }
            let ev = pie.tracker().0.ev.clone(); walk_session(&mut model, &ev, true, true)?;
            if o2 != out { fail!("C01", "C01.bounded.output_equals_from_scratch", "second require returned {} after {}", o2, out); } }
          Err(e) => fail!("C19", "C19.bounded.no_internal_invariant_error", "second require panicked: {}", panic_msg(e)) }
        changed.clear();
      }
      Act::PanicIn(task, root) => {
        let (task, root) = (*task % n, *root % n);
        clear_logs(&mut pie); sync_shadow(&mut pie);
        PANIC_IN.with(|p| p.set(Some(task)));
        let r = catch_unwind(AssertUnwindSafe(|| pie.new_session().require(&T(root))));
        PANIC_IN.with(|p| p.set(None));
        let ok = r.is_ok();
        if let Err(e) = r { let m = panic_msg(e); if !m.starts_with("injected") { fail!("C19", "C19.bounded.no_internal_invariant_error", "a build in which task {} panics failed with: {}", task, m); } }
        let ev = pie.tracker().0.ev.clone();
        walk_session(&mut model, &ev, ok, true)?;
        // (the following actions of the history check that the instance is still usable and sound)
      }
      Act::BottomUp | Act::BottomUpFlaky => {
        let flaky = matches!(a, Act::BottomUpFlaky);
        clear_logs(&mut pie); sync_shadow(&mut pie);
        let ch = changed.clone();
        FAIL_CHECK.with(|f| f.set(flaky));
        let r = catch_unwind(AssertUnwindSafe(|| { let mut s = pie.new_session(); { let mut b = s.create_bottom_up_build(); for r in &ch { b.schedule_tasks_affected_by(&Res(*r)); } b.update_affected_tasks(); } let n_errs = s.dependency_check_errors().len(); n_errs }));
        FAIL_CHECK.with(|f| f.set(false));
        let errs = match r { Ok(n) => n, Err(e) => { let m = panic_msg(e); if flaky { fail!("C18", "C18.bounded.failed_check_never_aborts_the_build", "bottom-up build with failing checkers panicked: {}", m); } if is_internal_error(&m) { fail!("C19", "C19.bounded.no_internal_invariant_error", "bottom-up build panicked: {}", m); } fail!("C20", "C20.bounded.well_formed_program_never_aborts", "bottom-up build of a well-formed program panicked: {}", m); } };
        stream_obligations(&pie)?;
        let ev = pie.tracker().0.ev.clone();
        // every failed check is reported (C18), whatever else happens to the task
        let failed_checks = ev.iter().filter(|e| !e.start && e.verdict == "error").count();
        if errs != failed_checks { fail!("C18", "C18.bounded.check_errors_are_reported", "{} checks failed with an error during the bottom-up build, the session reports {} dependency check errors", failed_checks, errs); }
        // scheduling follows the verdict of the dependency's own checker: not consistent (or failed) <=> the task is scheduled: `schedule`
        // is the next event, or the task is already waiting (scheduled earlier in this build and not executed yet)
        {
          let mut waiting_now: Vec<String> = vec![];
          for (i, e) in ev.iter().enumerate() {
            if !e.start && (e.kind == "check_read" || e.kind == "check_req") {
              let next_is_schedule = ev.get(i + 1).map(|n| n.kind == "schedule" && n.subject == e.subject).unwrap_or(false);
              let scheduled = next_is_schedule || waiting_now.contains(&e.subject);
              if e.verdict == "error" && !scheduled { fail!("C18", "C18.bounded.failed_check_schedules_the_task", "the check of a dependency of {} failed with an error, but the task was not scheduled", e.subject); }
              if e.verdict == "inconsistent" && !scheduled { fail!("C09", "C09.bounded.inconsistent_dependency_schedules_its_task", "a dependency of {} was reported inconsistent, but the task was not scheduled", e.subject); }
              if e.verdict == "consistent" && next_is_schedule { fail!("C04", "C04.bounded.consistent_dependency_does_not_schedule", "a dependency of {} was reported consistent, yet the task was scheduled", e.subject); }
            }
            if e.kind == "schedule" {
              let prev_ok = i > 0 && !ev[i - 1].start && (ev[i - 1].kind == "check_read" || ev[i - 1].kind == "check_req") && ev[i - 1].subject == e.subject && ev[i - 1].verdict != "consistent";
              if !prev_ok { fail!("C04", "C04.bounded.scheduled_only_for_an_inconsistent_dependency", "{} was scheduled without a preceding inconsistent check of one of its dependencies", e.subject); }
              if !ev[i..].iter().any(|x| x.start && x.kind == "execute" && x.subject == e.subject) && !ev[..i].iter().any(|x| x.start && x.kind == "execute" && x.subject == e.subject) { fail!("C04", "C04.bounded.scheduled_task_is_executed", "{} was scheduled but never executed in this build", e.subject); }
              if !waiting_now.contains(&e.subject) { waiting_now.push(e.subject.clone()); }
            }
            if e.kind == "execute" && e.start { waiting_now.retain(|w| *w != e.subject); }
          }
        }
        // C09 "... always does when its owner is validated": a change REPORTED to the bottom-up build validates every recorded read and
        // write dependency on that resource -- each such task is checked inside the bracket of that report (or is already waiting)
        {
          let first_build = ev.iter().position(|e| e.kind == "build" && e.start).unwrap_or(ev.len());
          let mut from = 0usize;
          for r in &ch {
            let subj = format!("Res({})", r);
            let s = match ev[from..first_build].iter().position(|e| e.start && e.kind == "sched_res" && e.subject == subj) { Some(p) => from + p, None => fail!("C17", "C17.bounded.reported_change_is_bracketed", "no schedule-affected-by-resource event for the reported {}", subj) };
            let en = match ev[s..first_build].iter().position(|e| !e.start && e.kind == "sched_res" && e.subject == subj) { Some(p) => s + p, None => fail!("C17", "C17.bounded.reported_change_is_bracketed", "the report of {} is not closed before the build starts", subj) };
            let waiting: Vec<&String> = ev[..s].iter().filter(|e| e.kind == "schedule").map(|e| &e.subject).collect();
            let checked: Vec<&String> = ev[s..en].iter().filter(|e| e.kind == "check_read" && !e.start).map(|e| &e.subject).collect();
            let mut owners: Vec<&String> = model.deps.iter().filter(|(t, ds)| model.completed.contains(*t) && ds.iter().any(|d| (d.kind == "read" || d.kind == "write") && d.subject == subj)).map(|(t, _)| t).collect();
            owners.sort();
            for t in owners {
              if !checked.contains(&t) && !waiting.contains(&t) {
                // if a check inside this bracket failed with an error, the error is what ended the validation of the others (C18)
                if ev[s..en].iter().any(|e| e.kind == "check_read" && !e.start && e.verdict == "error") { fail!("C18", "C18.bounded.a_failed_check_does_not_end_the_validation_of_the_other_dependents", "{} has a recorded dependency on {}, which was reported as changed; the check of another dependent failed with an error and {} was never checked", t, subj, t); }
                fail!("C09", "C09.bounded.reported_change_validates_every_reader_and_writer", "{} has a recorded dependency on {}, which was reported as changed, but that dependency was not checked", t, subj);
              }
            }
            from = en + 1;
          }
        }
        // ... and so does a WRITE during the build: every task with a recorded read of the written resource is checked inside the bracket
        // of that write, unless it is waiting, executing, or was already executed in this build (its record is then newer than `model`)
        {
          let first_build = ev.iter().position(|e| e.kind == "build" && e.start).unwrap_or(ev.len());
          let mut stack: Vec<&String> = vec![]; let mut done: Vec<&String> = vec![]; let mut waiting: Vec<&String> = vec![];
          let mut i = 0usize;
          while i < ev.len() {
            let e = &ev[i];
            if e.kind == "schedule" && !waiting.contains(&&e.subject) { waiting.push(&e.subject); }
            if e.kind == "execute" && e.start { stack.push(&e.subject); waiting.retain(|w| **w != e.subject); }
            if e.kind == "execute" && !e.start { stack.pop(); done.push(&e.subject); }
            if i > first_build && e.start && e.kind == "sched_res" {
              let en = match ev[i..].iter().position(|x| !x.start && x.kind == "sched_res" && x.subject == e.subject) { Some(p) => i + p, None => break };
              let checked: Vec<&String> = ev[i..en].iter().filter(|x| x.kind == "check_read" && !x.start).map(|x| &x.subject).collect();
              let mut owners: Vec<&String> = model.deps.iter().filter(|(t, ds)| model.completed.contains(*t) && ds.iter().any(|d| d.kind == "read" && d.subject == e.subject)).map(|(t, _)| t).collect();
              owners.sort();
              for t in owners {
                if !checked.contains(&t) && !waiting.contains(&t) && !stack.contains(&t) && !done.contains(&t) {
                  if ev[i..en].iter().any(|x| x.kind == "check_read" && !x.start && x.verdict == "error") { fail!("C18", "C18.bounded.a_failed_check_does_not_end_the_validation_of_the_other_dependents", "{} has a recorded read of {}, which was written in this bottom-up build; the check of another reader failed with an error and {} was never checked", t, e.subject, t); }
                  fail!("C09", "C09.bounded.write_validates_every_reader", "{} has a recorded read of {}, which {} wrote in this bottom-up build, but that dependency was not checked", t, e.subject, done.last().map(|x| x.as_str()).unwrap_or("a task"));
                }
              }
            }
            i += 1;
          }
        }
        // order: a scheduled task is never popped for execution while a scheduled task it (transitively) requires is still waiting
        {
          let mut waiting: Vec<String> = vec![]; let mut depth = 0i32; let mut top_start = 0usize;
          for (i, e) in ev.iter().enumerate() {
            if e.kind == "schedule" && !waiting.contains(&e.subject) { waiting.push(e.subject.clone()); }
            if e.kind == "execute" && e.start {
              if depth == 0 {
                top_start = i;
                for y in &waiting { if *y != e.subject && model_reaches(&model, &e.subject, y) { fail!("C04", "C04.bounded.scheduled_task_not_executed_before_a_scheduled_dependency", "{} was executed while {} -- a scheduled task it requires -- was still waiting", e.subject, y); } }
              }
              waiting.retain(|w| *w != e.subject);
              depth += 1;
            }
            if e.kind == "execute" && !e.start { depth -= 1; if depth == 0 { walk_session(&mut model, &ev[top_start..=i], false, false)?; } }
          }
        }
        let ex = pie.tracker().0.executed();
        for (i, e) in ex.iter().enumerate() { if ex[..i].contains(e) { fail!("C04", "C04.bounded.executed_at_most_once_per_build", "{} executed twice in one bottom-up build", e); } }
        changed.clear();
      }
    }
  }
  // C15: look-alike task types never share a node / cached output
  let k = 0u8;
  let cur = map_of(&mut pie);
  let r = catch_unwind(AssertUnwindSafe(|| { let mut p2 = new_pie(); set_map(&mut p2, &cur); let mut s = p2.new_session(); let a = s.require(&T(k)); let b = s.require(&U(k)); drop(s); (a, b, p2.tracker().0.executed()) }));
  if let Ok((a, b, ex)) = r {
    let fa = fresh_build(&cur, k).map(|x| x.0).unwrap_or(a);
    if a != fa { fail!("C15", "C15.bounded.different_types_never_share_a_cached_output", "T(0) returned {} next to U(0), alone it returns {}", a, fa); }
    if b == a || ex.iter().filter(|e| e.as_str() == "T(0)").count() < 2 { fail!("C15", "C15.bounded.different_types_never_share_a_cached_output", "U(0) got {} (T(0) got {}), executions of `T(0)`-looking tasks: {:?}", b, a, ex); }
  }
  // ... and a task wrapped in Rc / Arc is a task of its own: executing the wrapper executes the wrapped body directly, it does not go
  // through the node (and cached output) of the task it wraps
  let r = catch_unwind(AssertUnwindSafe(|| { let mut p3 = new_pie(); set_map(&mut p3, &cur); let mut s = p3.new_session(); let a = s.require(&std::rc::Rc::new(T(k))); let b = s.require(&std::sync::Arc::new(T(k))); drop(s); (a, b, p3.tracker().0.executed()) }));
  if let Ok((a, b, ex)) = r {
    let n = ex.iter().filter(|e| e.as_str() == "T(0)").count();
    if n != 2 || a != b { fail!("C15", "C15.bounded.a_wrapped_task_is_a_task_of_its_own", "requiring Rc<T(0)> and Arc<T(0)> (and nothing else) executed {} tasks that print `T(0)` (expected the two wrappers only), results {} / {}", n, a, b); }
  }
  Ok(())
}

/// a failure that only occurs when the history contains aborted builds is a failure of C19
pub fn run_case_attributed(prog: &Vec<Vec<Step>>, hist: &[Act]) -> Result<(), Fail> {
  match run_case(prog, hist) {
    Err(f) if f.prop != "C19" && hist.iter().any(|a| matches!(a, Act::PanicIn(..))) => {
      let h2: Vec<Act> = hist.iter().filter(|a| !matches!(a, Act::PanicIn(..))).cloned().collect();
      if run_case(prog, &h2).is_ok() { Err(Fail { prop: "C19", ob: "C19.bounded.builds_after_an_abort_are_sound", what: format!("{} [{}] (the same history without the aborted builds passes)", f.what, f.ob) }) } else { Err(f) }
    }
    r => r,
  }
}

/// histories dominated by bottom-up builds after changes of both source resources
pub fn gen_bottom_up_history(rng: &mut Rng, rounds: usize) -> Vec<Act> {
  let mut h = vec![Act::Set(0, rng.below(4) as u8), Act::Set(1, rng.below(4) as u8), Act::TopDown(0), Act::TopDown(1)];
  for _ in 0..rounds {
    h.push(Act::Set(0, rng.below(6) as u8)); if rng.below(3) > 0 { h.push(Act::Set(1, rng.below(6) as u8)); }
    h.push(if rng.below(8) == 0 { Act::BottomUpFlaky } else { Act::BottomUp });
    if rng.below(2) == 0 { h.push(Act::TopDown(rng.below(3) as u8)); }
  }
  h.push(Act::TopDown(0));
  h
}
pub fn gen_history(rng: &mut Rng, len: usize) -> Vec<Act> {
  let mut h = vec![Act::Set(0, rng.below(4) as u8), Act::Set(1, rng.below(4) as u8), Act::TopDown(rng.below(6) as u8)];
  for _ in 0..len {
    h.push(match rng.below(12) { 0..=3 => Act::Set(rng.below(SOURCES as usize) as u8, rng.below(5) as u8), 4 => Act::Del(rng.below(SOURCES as usize) as u8),
      5..=7 => Act::TopDown(rng.below(6) as u8), 8 => if rng.below(3) == 0 { Act::BottomUpFlaky } else { Act::TopDownFlaky(rng.below(6) as u8) }, 9 => Act::BottomUp, 10 => Act::PanicIn(rng.below(6) as u8, rng.below(6) as u8), _ => Act::Set(2 + rng.below(2) as u8, rng.below(5) as u8) });
  }
  h.push(Act::TopDown(0));
  h
}

// ---- injected violations (C05, C06, C07) ----------------------------------------------------------------------------
pub fn violation_cases() -> Vec<(&'static str, &'static str, Vec<Vec<Step>>, Vec<Act>, &'static str)> {
  // (values: a task without reads starts from acc = id + 1 and writes acc + constant)
  use Step::*;
  vec![
    ("C05", "C05.bounded.hidden_read_after_write_aborts", vec![vec![Require(1, 1), Require(2, 1)], vec![Write(2, 1)], vec![Read(2, 0)]], vec![Act::TopDown(0)], "Hidden dependency"),
    ("C05", "C05.bounded.hidden_write_after_read_aborts", vec![vec![Require(2, 1), Require(1, 1)], vec![Write(2, 1)], vec![Read(2, 0)]], vec![Act::TopDown(0)], "Hidden dependency"),
    ("C05", "C05.bounded.hidden_read_in_later_session_aborts", vec![vec![Require(1, 1)], vec![Write(2, 1)], vec![Read(2, 0)]], vec![Act::TopDown(0), Act::TopDown(2)], "Hidden dependency"),
    ("C05", "C05.bounded.hidden_declared_write_aborts", vec![vec![Require(2, 1), Require(1, 1)], vec![WrittenTo(2, 1)], vec![Read(2, 0)]], vec![Act::TopDown(0)], "Hidden dependency"),
    ("C05", "C05.bounded.hidden_read_after_a_legal_transitive_read_aborts", vec![vec![Require(4, 1), Require(1, 1), Read(2, 0), Require(2, 1)], vec![Require(3, 1)], vec![Read(3, 0)], vec![Write(2, 1)], vec![Write(3, 1)]], vec![Act::TopDown(0)], "Hidden dependency"),
    ("C05", "C05.bounded.hidden_write_after_a_legal_transitive_read_aborts", vec![vec![Require(2, 1), Require(1, 1), Read(2, 0), Require(4, 1)], vec![Require(3, 1)], vec![Read(3, 0)], vec![Write(2, 1)], vec![Write(3, 1)]], vec![Act::TopDown(0)], "Hidden dependency"),
    ("C05", "C05.bounded.hidden_read_by_a_task_with_unrelated_requires_aborts", vec![vec![Require(1, 1), Require(2, 1)], vec![Write(2, 1)], vec![Require(3, 0), Read(0, 0), Read(2, 0)], vec![Read(1, 0)]], vec![Act::TopDown(0)], "Hidden dependency"),
    ("C05", "C05.bounded.read_then_write_of_the_same_resource_by_one_task_aborts", vec![vec![Read(2, 0), Write(2, 1)]], vec![Act::TopDown(0)], "Hidden dependency"),
    // Top reads what Gen generates and requires Gen only through Mid; Mid later stops requiring Gen (its requirer is not re-executed);
    // when Gen then writes again, the recorded reader no longer depends on it
    ("C05", "C05.bounded.hidden_write_after_an_intermediate_task_dropped_its_require_aborts", vec![vec![Require(1, 1), Read(2, 0)], vec![Read(0, 1), IfOdd(vec![Require(2, 1)], vec![])], vec![Read(1, 0), Write(2, 1)]],
       vec![Act::Set(0, 2), Act::Set(1, 0), Act::TopDown(0), Act::Set(0, 1), Act::TopDown(1), Act::Set(1, 1), Act::TopDown(2)], "Hidden dependency"),
    // the generator of resource 2 changes from T1 to T3 between two builds; a task that then reads it without requiring T3 is diagnosed
    ("C05", "C05.bounded.hidden_read_after_the_writer_changed_aborts", vec![vec![Require(1, 1), Require(3, 1)], vec![Read(0, 1), IfOdd(vec![Write(2, 1)], vec![])], vec![Read(2, 0)], vec![Read(0, 1), IfOdd(vec![], vec![Write(2, 1)])]],
       vec![Act::Set(0, 0), Act::TopDown(0), Act::Set(0, 1), Act::TopDown(0), Act::TopDown(2)], "Hidden dependency"),
    // a task that requires the generator and READS the generated resource (legal) and then writes it: still an overlapping write
    ("C06", "C06.bounded.overlap_by_a_task_that_already_reads_the_resource_aborts", vec![vec![Require(1, 1), Read(2, 0), Write(2, 2)], vec![Write(2, 1)]], vec![Act::TopDown(0)], "Overlapping write"),
    ("C06", "C06.bounded.declared_overlap_by_a_task_that_already_reads_the_resource_aborts", vec![vec![Require(1, 1), Read(2, 0), WrittenTo(2, 2)], vec![Write(2, 1)]], vec![Act::TopDown(0)], "Overlapping write"),
    // T0 reads resource 2, writes it and then requires T1, which writes it too: never two writers (the unchanged code refuses T0's own write)
    // two readers of resource 2 are recorded before T3 starts writing it: the first (T1) requires T3, the later one (T2) does not
    ("C05", "C05.bounded.hidden_write_with_a_compliant_reader_recorded_first_aborts", vec![vec![], vec![Require(3, 1), Read(2, 0)], vec![Read(2, 0)], vec![Read(0, 1), IfOdd(vec![Write(2, 1)], vec![])]],
       vec![Act::Set(0, 1), Act::TopDown(1), Act::TopDown(2), Act::Set(0, 0), Act::TopDown(3)], "Hidden dependency"),
    // the writer T0 requires T1; in a later session T1 starts reading what T0 generates (it cannot depend on T0: that would be a cycle)
    ("C05", "C05.bounded.hidden_read_by_a_task_the_writer_requires_aborts", vec![vec![Require(1, 1), Write(2, 1)], vec![Read(0, 1), IfOdd(vec![Read(2, 1)], vec![])]],
       vec![Act::Set(0, 1), Act::TopDown(0), Act::Set(0, 0), Act::TopDown(0)], "Hidden dependency"),
    // T0 writes resource 2 and is then interrupted (the task it requires panics): it stays the recorded writer, its content is in the
    // resource; a different task writing the resource in a later build is an overlapping write
    ("C06", "C06.bounded.overlap_with_a_writer_interrupted_by_an_abort_is_diagnosed", vec![vec![Write(2, 1), Require(1, 1)], vec![Read(0, 0)], vec![Write(2, 2)]], vec![Act::Set(0, 0), Act::PanicIn(1, 0), Act::TopDown(2)], "Overlapping write"),
    ("C06", "C06.bounded.second_writer_after_a_read_then_write_task_never_succeeds", vec![vec![Read(2, 0), Write(2, 1), Require(1, 1)], vec![Write(2, 2)]], vec![Act::TopDown(0)], "Hidden dependency"),
    // the second writer declares its write with a checker that cannot stamp: the overlap is diagnosed all the same
    ("C06", "C06.bounded.declared_overlap_is_diagnosed_even_if_stamping_fails", vec![vec![Require(1, 1), Require(2, 1)], vec![Write(2, 1)], vec![WrittenToBadStamp(2, 2)]], vec![Act::TopDown(0)], "Overlapping write"),
    ("C06", "C06.bounded.overlapping_write_aborts", vec![vec![Require(1, 1), Require(2, 1)], vec![Write(2, 1)], vec![Write(2, 2)]], vec![Act::TopDown(0)], "Overlapping write"),
    ("C06", "C06.bounded.overlapping_declared_write_aborts", vec![vec![Require(1, 1), Require(2, 1)], vec![Write(2, 1)], vec![WrittenTo(2, 2)]], vec![Act::TopDown(0)], "Overlapping write"),
    ("C06", "C06.bounded.overlap_with_requirer_that_wrote_first_aborts", vec![vec![Write(2, 1), Require(1, 1)], vec![Write(2, 2)]], vec![Act::TopDown(0)], "Overlapping write"),
    ("C06", "C06.bounded.overlapping_write_in_later_session_aborts", vec![vec![Write(2, 1)], vec![Write(2, 2)]], vec![Act::TopDown(0), Act::TopDown(1)], "Overlapping write"),
    // the writer of a resource stays recorded while a *reader* of that resource is re-executed (the writer itself stays consistent)
    ("C06", "C06.bounded.overlap_after_a_reader_of_the_resource_was_reexecuted_aborts", vec![vec![Write(2, 1)], vec![Require(0, 1), Read(2, 0), Read(0, 0)], vec![Write(2, 2)]], vec![Act::Set(0, 0), Act::TopDown(1), Act::Set(0, 1), Act::TopDown(1), Act::TopDown(2)], "Overlapping write"),
    ("C06", "C06.bounded.declared_overlap_after_a_reader_of_the_resource_was_reexecuted_aborts", vec![vec![Write(2, 1)], vec![Require(0, 1), Read(2, 0), Read(0, 0)], vec![WrittenTo(2, 2)]], vec![Act::Set(0, 0), Act::TopDown(1), Act::Set(0, 1), Act::TopDown(1), Act::TopDown(2)], "Overlapping write"),
    ("C07", "C07.bounded.cycle_of_two_aborts", vec![vec![Require(1, 0)], vec![Require(0, 0)]], vec![Act::TopDown(0)], "Cyclic task dependency"),
    ("C07", "C07.bounded.cycle_of_three_aborts", vec![vec![Require(1, 0)], vec![Require(2, 0)], vec![Require(0, 0)]], vec![Act::TopDown(0)], "Cyclic task dependency"),
    ("C07", "C07.bounded.cycle_through_a_task_that_read_a_generated_resource_aborts", vec![vec![Require(1, 0)], vec![Require(3, 1), Read(2, 0), Require(2, 0)], vec![Require(0, 0)], vec![Write(2, 1)]], vec![Act::TopDown(0)], "Cyclic task dependency"),
    // a cycle that exists only for some resource value, closed in a later session by tasks that have cached outputs
    ("C07", "C07.bounded.cycle_appearing_in_a_later_session_aborts", vec![vec![Require(1, 0)], vec![Require(2, 0)], vec![Read(0, 0), IfOdd(vec![Require(0, 0)], vec![])]], vec![Act::Set(0, 0), Act::TopDown(0), Act::TopDown(0), Act::Set(0, 1), Act::TopDown(0)], "Cyclic task dependency"),
    ("C07", "C07.bounded.cycle_to_the_middle_appearing_in_a_later_session_aborts", vec![vec![Require(1, 0)], vec![Require(2, 0)], vec![Read(0, 0), IfOdd(vec![Require(1, 0)], vec![])]], vec![Act::Set(0, 0), Act::TopDown(0), Act::Set(0, 1), Act::TopDown(0)], "Cyclic task dependency"),
    ("C07", "C07.bounded.cycle_appearing_in_a_later_session_entered_in_the_middle_aborts", vec![vec![Require(1, 0)], vec![Require(2, 0)], vec![Read(0, 0), IfOdd(vec![Require(0, 0)], vec![])]], vec![Act::Set(0, 0), Act::TopDown(0), Act::Set(0, 1), Act::TopDown(1)], "Cyclic task dependency"),
    ("C07", "C07.bounded.self_cycle_aborts", vec![vec![Require(0, 0)]], vec![Act::TopDown(0)], "Cyclic task dependency"),
  ]
}
/// for the cases whose violation is diagnosed in `Context::write` of a task without reads: the value that write would store
fn aborted_write_value(prog: &Vec<Vec<Step>>, ob: &str) -> Option<u8> {
  let writer: usize = match ob {
    "C05.bounded.hidden_write_after_read_aborts" => 1,
    "C06.bounded.overlapping_write_aborts" => 2,
    "C06.bounded.overlap_with_requirer_that_wrote_first_aborts" | "C06.bounded.overlapping_write_in_later_session_aborts" => 1,
    _ => return None,
  };
  match prog[writer].iter().find(|s| matches!(s, Step::Write(2, _))) { Some(Step::Write(_, add)) => Some((writer as u8 + 1).wrapping_add(*add)), _ => None }
}
/// the last action of `hist` must abort with `expect`; earlier ones must succeed; afterwards the instance must still be usable
pub fn run_violation(prog: &Vec<Vec<Step>>, hist: &[Act], expect: &str, prop: &'static str, ob: &'static str) -> Result<(), Fail> {
  PROG.with(|p| *p.borrow_mut() = prog.clone()); FAIL_CHECK.with(|f| f.set(false)); PANIC_IN.with(|p| p.set(None));
  let mut pie = new_pie();
  thread_local! { static DEPTH: Cell<u32> = Cell::new(0); }
  let last_build = hist.iter().rposition(|a| matches!(a, Act::TopDown(_))).unwrap_or(0);
  for (i, a) in hist.iter().enumerate() {
    if let Act::Set(r, v) = a { pie.resource_state_mut::<Res>().get_global_map_mut().insert(Res(*r), *v); }
    if let Act::PanicIn(task, root) = a {   // an earlier build that is aborted by a panic in `task`
      PANIC_IN.with(|p| p.set(Some(*task)));
      let r = catch_unwind(AssertUnwindSafe(|| pie.new_session().require(&T(*root))));
      PANIC_IN.with(|p| p.set(None)); ACTIVE.with(|a| a.borrow_mut().clear());
      match r { Ok(_) => panic!("harness: the build in which task {} panics returned", task), Err(e) => { let m = panic_msg(e); if !m.starts_with("injected") { fail!("C19", "C19.bounded.no_internal_invariant_error", "a build in which task {} panics failed with: {}", task, m); } } }
    }
    if let Act::TopDown(root) = a {
      let before = map_of(&mut pie);
      let r = catch_unwind(AssertUnwindSafe(|| pie.new_session().require(&T(*root))));
      ACTIVE.with(|a| a.borrow_mut().clear());
      let last = i == last_build;
      match (r, last) {
        (Ok(_), false) => {}
        (Ok(o), true) => fail!(prop, ob, "the build returned {} instead of aborting with `{}`", o, expect),
        (Err(e), l) => { let m = panic_msg(e); if !l || !m.starts_with(expect) { fail!(prop, ob, "expected {} `{}`, got panic `{}`", if l { "abort" } else { "no abort before the last build; expected later" }, expect, m); }
          // an abort diagnosed on the writing side of `Context::write` happens before the resource is modified
          if let Some(w) = aborted_write_value(prog, ob) {
            let after = map_of(&mut pie);
            if after.get(&Res(2)) == Some(&w) && before.get(&Res(2)) != Some(&w) { fail!(prop, if prop == "C06" { "C06.bounded.abort_before_the_resource_is_modified" } else { "C05.bounded.abort_before_the_resource_is_modified" }, "resource 2 holds {:?}, the value of the write that was diagnosed ({:?} before the build): it was modified although the build aborted", after.get(&Res(2)), before.get(&Res(2))); }
          }
        }
      }
    }
  }
  // C19: the instance stays usable and sound: an unrelated task builds
  PROG.with(|p| { let mut p = p.borrow_mut(); p.push(vec![Step::Read(0, 0)]); });
  let idx = prog.len() as u8;
  let r = catch_unwind(AssertUnwindSafe(|| pie.new_session().require(&T(idx))));
  if let Err(e) = r { let m = panic_msg(e); fail!("C19", "C19.bounded.no_internal_invariant_error", "after the abort, an unrelated build panicked: {}", m); }
  // the violation still exists: building the root again aborts again for a diagnosed violation or returns, never an internal error
  PROG.with(|p| *p.borrow_mut() = prog.clone());
  for _ in 0..2 {
    let r = catch_unwind(AssertUnwindSafe(|| pie.new_session().require(&T(0))));
    if let Err(e) = r { let m = panic_msg(e); if !(m.starts_with("Hidden dependency") || m.starts_with("Overlapping write") || m.starts_with("Cyclic task dependency")) { fail!("C19", "C19.bounded.no_internal_invariant_error", "building the root again after the abort failed with: {}", m); } }
  }
  Ok(())
}

// ---- C19: builds after a *diagnosed* abort -------------------------------------------------------------------------------
/// programs in which a resource value decides whether the violation exists: the first build aborts with the diagnosis, the value is
/// then changed so that a from-scratch build succeeds, and every later top-down build on the SAME instance must return what a
/// from-scratch build of the then-current state returns (in every order of roots, with and without the writer's own input changing)
pub fn recovery_cases() -> Vec<(&'static str, Vec<Vec<Step>>, Vec<Act>)> {
  use Step::*;
  let shapes: Vec<(&'static str, Vec<Vec<Step>>, u8, u8)> = vec![
    // (name, program, value of resource 0 with the violation, value without)
    ("hidden read, then the reader requires the writer", vec![vec![Require(1, 1), Require(2, 1)], vec![Read(1, 0), Write(2, 1)], vec![Read(0, 1), IfOdd(vec![Require(1, 1)], vec![]), Read(2, 0)]], 0, 1),
    ("hidden write after a read, then the reader requires the writer", vec![vec![Require(2, 1), Require(1, 1)], vec![Read(1, 0), Write(2, 1)], vec![Read(0, 1), IfOdd(vec![Require(1, 1)], vec![]), Read(2, 0)]], 0, 1),
    ("hidden declared write after a read, then the reader requires the writer", vec![vec![Require(2, 1), Require(1, 1)], vec![Read(1, 0), WrittenTo(2, 1)], vec![Read(0, 1), IfOdd(vec![Require(1, 1)], vec![]), Read(2, 0)]], 0, 1),
    ("overlapping write, then the second writer stops writing", vec![vec![Require(1, 1), Require(2, 1)], vec![Read(1, 0), Write(2, 1)], vec![Read(0, 1), IfOdd(vec![], vec![Write(2, 2)])]], 0, 1),
    ("overlapping write by the first-built task, then it stops writing", vec![vec![Require(2, 1), Require(1, 1)], vec![Read(1, 0), Write(2, 1)], vec![Read(0, 1), IfOdd(vec![], vec![Write(2, 2)])]], 0, 1),
    ("cycle of three, then the closing require disappears", vec![vec![Require(1, 0)], vec![Read(1, 0), Require(2, 0)], vec![Read(0, 0), IfOdd(vec![Require(0, 0)], vec![])]], 1, 0),
  ];
  let mut v = vec![];
  for (name, prog, bad, good) in shapes {
    for touch_writer in [false, true] {
      for order in 0..27u8 {
        let mut h = vec![Act::Set(0, bad), Act::Set(1, 0), Act::TopDown(0), Act::Set(0, good)];
        if touch_writer { h.push(Act::Set(1, 1)); }
        for r in [order % 3, (order / 3) % 3, order / 9] { h.push(Act::TopDown(r)); }
        v.push((name, prog.clone(), h));
      }
    }
  }
  v
}
/// The reference for "what may still be diagnosed" is a TWIN instance that never ran the aborted build but ran, one by one, the
/// executions that COMPLETED inside it: a conflict with what a completed execution recorded still exists on the instance until that
/// task is built again (the same happens without any abort in the history), so only what the instance does beyond its twin is
/// attributed to the abort.
pub fn run_recovery(prog: &Vec<Vec<Step>>, hist: &[Act]) -> Result<usize, Fail> {
  PROG.with(|p| *p.borrow_mut() = prog.clone()); FAIL_CHECK.with(|f| f.set(false)); PANIC_IN.with(|p| p.set(None));
  let diagnosed = |m: &str| m.starts_with("Hidden dependency") || m.starts_with("Overlapping write") || m.starts_with("Cyclic task dependency");
  let build = |p: &mut P, root: u8| -> Result<u32, String> {
    clear_logs(p); sync_shadow(p);
    let r = catch_unwind(AssertUnwindSafe(|| p.new_session().require(&T(root))));
    ACTIVE.with(|a| a.borrow_mut().clear());
    r.map_err(panic_msg)
  };
  let mut pie = new_pie(); let mut twin = new_pie();
  let mut aborted = 0; let mut recovered = 0;
  for a in hist {
    if let Act::Set(r, v) = a { for p in [&mut pie, &mut twin] { p.resource_state_mut::<Res>().get_global_map_mut().insert(Res(*r), *v); } }
    if let Act::TopDown(root) = a {
      let before = map_of(&mut pie);
      if map_of(&mut twin) != before { panic!("harness: the twin instance holds other resources {:?} than the instance {:?}", map_of(&mut twin), before); }
      let fresh = fresh_build(&before, *root);
      let r = build(&mut pie, *root);
      match r {
        Err(m) => {
          if is_internal_error(&m) || !diagnosed(&m) { fail!("C19", "C19.bounded.no_internal_invariant_error", "require(T({})) failed with: {}", root, m); }
          if aborted == 0 {
            // the first abort: the twin runs what completed in it, in order of completion
            if fresh.is_ok() { panic!("harness: the build that should abort succeeds from scratch"); }
            let done: Vec<u8> = pie.tracker().0.ev.iter().filter(|e| !e.start && e.kind == "execute").map(|e| e.subject.trim_start_matches("T(").trim_end_matches(')').parse().unwrap()).collect();
            for t in done { if let Err(m) = build(&mut twin, t) { panic!("harness: the twin could not build completed task {}: {}", t, m); } }
            // (a declared write -- create_writer, then written_to -- has modified the resource before it is diagnosed)
            let now = map_of(&mut pie); set_map(&mut twin, &now);
            aborted += 1;
          } else {
            let tw = build(&mut twin, *root);
            if fresh.is_ok() && tw.is_ok() {
              fail!("C19", "C19.bounded.after_a_diagnosed_abort_no_abort_for_a_violation_that_is_gone", "require(T({})) aborts with `{}`; a from-scratch build of the current state succeeds, and so does an instance that only ran the executions completed in the aborted build", root, m);
            }
            if tw.is_ok() { panic!("harness: from-scratch aborts, the twin does not"); }
          }
        }
        Ok(out) => {
          let tw = build(&mut twin, *root);
          if let Ok((fout, _, fmap)) = fresh {
            if aborted > 0 { recovered += 1; }
            if out != fout { fail!("C19", "C19.bounded.after_a_diagnosed_abort_builds_return_from_scratch_results", "require(T({})) returned {} on the instance that had aborted, a from-scratch build returns {}", root, out, fout); }
            let after = map_of(&mut pie);
            if after != fmap { fail!("C19", "C19.bounded.after_a_diagnosed_abort_builds_return_from_scratch_results", "resources after require(T({})) {:?} differ from the from-scratch build {:?}", root, after, fmap); }
          }
          if tw.is_err() { // the twin still holds a conflicting record the instance has already replaced: bring it up to date
            twin = new_pie(); set_map(&mut twin, &map_of(&mut pie));
            let _ = build(&mut twin, *root);
          }
        }
      }
    }
  }
  if aborted == 0 { panic!("harness: a recovery case without an abort"); }
  Ok(recovered)
}

// ---- C16: the same history on fresh instances gives the same event stream ---------------------------------------------------
/// a requirer that starts requiring `Sum` (which requires `n` leaves) only after resource 0 changed, and is re-executed first in a
/// bottom-up build in which all leaves are scheduled: the order in which the leaves run must not depend on the instance
pub fn determinism_case(n: usize) -> (Vec<Vec<Step>>, Vec<Act>) {
  use Step::*;
  let mut prog: Vec<Vec<Step>> = vec![];
  prog.push(vec![Read(0, 0), IfOdd(vec![Require(1, 0)], vec![])]);                 // T0 "report": requires T1 only for some values of resource 0
  prog.push((0..n).map(|i| Require(2 + i as u8, 0)).collect());                    // T1 "sum": requires all leaves
  for _ in 0..n { prog.push(vec![Read(1, 0)]); }                                   // leaves: all read resource 1
  // T0: acc = 1; after Read(0): acc = 31 + seen; seen = v + 1; odd acc <=> v + 1 even <=> v odd
  let hist = vec![Act::Set(0, 0), Act::Set(1, 1), Act::TopDown(1), Act::TopDown(0), Act::Set(1, 2), Act::Set(0, 1), Act::BottomUp, Act::TopDown(0), Act::TopDown(1)];
  (prog, hist)
}
fn stream_of(prog: &Vec<Vec<Step>>, hist: &[Act]) -> Result<Vec<String>, String> {
  PROG.with(|p| *p.borrow_mut() = prog.clone()); FAIL_CHECK.with(|f| f.set(false)); PANIC_IN.with(|p| p.set(None));
  let n = prog.len() as u8;
  let mut pie = new_pie(); let mut changed: Vec<u8> = vec![]; let mut out: Vec<String> = vec![];
  for a in hist {
    match a {
      Act::Set(r, v) => { pie.resource_state_mut::<Res>().get_global_map_mut().insert(Res(*r), *v); if !changed.contains(r) { changed.push(*r); } }
      Act::Del(r) => { pie.resource_state_mut::<Res>().get_global_map_mut().remove(&Res(*r)); if !changed.contains(r) { changed.push(*r); } }
      Act::TopDown(root) | Act::TopDownFlaky(root) => { let root = *root % n; let r = catch_unwind(AssertUnwindSafe(|| pie.new_session().require(&T(root)))); match r { Ok(o) => out.push(format!("returned {}", o)), Err(e) => return Err(panic_msg(e)) } changed.clear(); }
      Act::BottomUp | Act::BottomUpFlaky => { let ch = changed.clone(); let r = catch_unwind(AssertUnwindSafe(|| { let mut s = pie.new_session(); let mut b = s.create_bottom_up_build(); for r in &ch { b.schedule_tasks_affected_by(&Res(*r)); } b.update_affected_tasks(); })); if let Err(e) = r { return Err(panic_msg(e)); } changed.clear(); }
      Act::PanicIn(..) => {}
    }
  }
  for e in &pie.tracker().0.ev { out.push(format!("{} {} {} [{}|{}|{}|{}]", if e.start { "start" } else { "end" }, e.kind, e.subject, e.checker, e.stamp, e.verdict, e.output)); }
  Ok(out)
}
pub fn run_determinism(prog: &Vec<Vec<Step>>, hist: &[Act], repeats: usize) -> Result<(), Fail> {
  let first = match stream_of(prog, hist) { Ok(s) => s, Err(m) => fail!("C20", "C20.bounded.well_formed_program_never_aborts", "history aborted: {}", m) };
  for k in 1..repeats {
    let s = match stream_of(prog, hist) { Ok(s) => s, Err(m) => fail!("C16", "C16.bounded.same_history_same_event_stream", "replay {} aborted ({}), the first run did not", k, m) };
    if s != first {
      let i = s.iter().zip(first.iter()).position(|(a, b)| a != b).unwrap_or(s.len().min(first.len()));
      fail!("C16", "C16.bounded.same_history_same_event_stream", "replay {} on a fresh instance differs from the first run at event {}: `{}` vs `{}`", k, i, s.get(i).cloned().unwrap_or_default(), first.get(i).cloned().unwrap_or_default());
    }
  }
  Ok(())
}

// ---- C15 for resources: two resource types with identical fields, hash and debug text, looked up directly after one another -------
#[derive(Clone, Copy, PartialEq, Eq, Hash)] pub struct Res2(pub u8);
impl Debug for Res2 { fn fmt(&self, f: &mut std::fmt::Formatter<'_>) -> std::fmt::Result { write!(f, "Res({})", self.0) } }
impl MapKey for Res2 { type Value = u8; }
#[derive(Clone, PartialEq, Eq, Hash, Debug)] pub struct TwinReader(pub u8);
impl Task for TwinReader {
  type Output = (Option<u8>, Option<u8>);
  fn execute<C: Context>(&self, c: &mut C) -> Self::Output {
    let a = c.read(&Res(self.0), MapEqualsChecker).unwrap().copied();
    let b = c.read(&Res2(self.0), MapEqualsChecker).unwrap().copied();
    (a, b)
  }
}
pub fn twin_resources() -> Result<(), Fail> {
  let mut pie: Pie<()> = Pie::default();
  pie.resource_state_mut::<Res>().get_global_map_mut().insert(Res(1), 10);
  pie.resource_state_mut::<Res2>().get_global_map_mut().insert(Res2(1), 20);
  let first = pie.new_session().require(&TwinReader(1));
  if first != (Some(10), Some(20)) { fail!("C15", "C15.bounded.resources_of_different_types_never_share_a_node", "a task reading Res(1) = 10 and its look-alike of another type = 20 got {:?}", first); }
  // only the second resource changes: the task depends on it, so it must be re-executed -- top-down ...
  pie.resource_state_mut::<Res2>().get_global_map_mut().insert(Res2(1), 21);
  let second = pie.new_session().require(&TwinReader(1));
  if second != (Some(10), Some(21)) { fail!("C15", "C15.bounded.resources_of_different_types_never_share_a_node", "after only the look-alike resource changed to 21 the task returned {:?} (its dependency on that resource was lost or merged)", second); }
  // ... and bottom-up
  pie.resource_state_mut::<Res2>().get_global_map_mut().insert(Res2(1), 22);
  { let mut s = pie.new_session(); { let mut b = s.create_bottom_up_build(); b.schedule_tasks_affected_by(&Res2(1)); b.update_affected_tasks(); } let third = s.require(&TwinReader(1));
    if third != (Some(10), Some(22)) { fail!("C15", "C15.bounded.resources_of_different_types_never_share_a_node", "after a bottom-up build for the look-alike resource the task returned {:?}", third); } }
  // a writer of one twin is not a writer of the other
  #[derive(Clone, PartialEq, Eq, Hash, Debug)] struct TwinWriter(u8);
  impl Task for TwinWriter { type Output = (); fn execute<C: Context>(&self, c: &mut C) { c.write(&Res(self.0), MapEqualsChecker, |w| { w.insert(5); Ok(()) }).unwrap(); c.write(&Res2(self.0), MapEqualsChecker, |w| { w.insert(6); Ok(()) }).unwrap(); } }
  let r = catch_unwind(AssertUnwindSafe(|| { let mut p2: Pie<()> = Pie::default(); p2.new_session().require(&TwinWriter(3)); let a = p2.resource_state_mut::<Res>().get_global_map().get(&Res(3)).copied(); let b = p2.resource_state_mut::<Res2>().get_global_map().get(&Res2(3)).copied(); (a, b) }));
  match r { Ok((Some(5), Some(6))) => {}, Ok(o) => fail!("C15", "C15.bounded.resources_of_different_types_never_share_a_node", "one task wrote 5 and 6 to two look-alike resources of different types; they hold {:?}", o),
            Err(e) => fail!("C15", "C15.bounded.resources_of_different_types_never_share_a_node", "one task writing two look-alike resources of different types aborted: {}", panic_msg(e)) }
  Ok(())
}

/// a coarse output checker whose tolerance does not add up: consistent while the output is within 1 of the STAMPED output
#[derive(Copy, Clone, PartialEq, Eq, Hash, Debug)] pub struct Within1;
impl pie::OutputChecker<u32> for Within1 {
  type Stamp = u32;
  fn stamp(&self, o: &u32) -> u32 { *o }
  fn check(&self, o: &u32, s: &u32) -> Option<impl Debug> { if o.abs_diff(*s) > 1 { Some(*o) } else { None } }
}
// ---- C09: the stamp of a read is taken from the very reader handed to the task -----------------------------------------------------
/// a resource whose `read` is not a pure observation: the first read stores the default value
#[derive(Clone, PartialEq, Eq, Hash, Debug)] pub struct Setting(pub u8);
impl pie::Resource for Setting {
  type Reader<'rs> = u8; type Writer<'r> = (); type Error = std::convert::Infallible;
  fn read<'rs, RS: ResourceState<Self>>(&self, state: &'rs mut RS) -> Result<u8, Self::Error> { let m = state.get_or_set_default_mut::<HashMap<u8, u8>>(); Ok(*m.entry(self.0).or_insert(7)) }
  fn write<'r, RS: ResourceState<Self>>(&'r self, _state: &'r mut RS) -> Result<(), Self::Error> { Ok(()) }
}
#[derive(Copy, Clone, PartialEq, Eq, Hash, Debug)] pub struct SettingEquals;
impl ResourceChecker<Setting> for SettingEquals {
  type Stamp = Option<u8>; type Error = std::convert::Infallible;
  fn stamp<RS: ResourceState<Setting>>(&self, k: &Setting, s: &mut RS) -> Result<Option<u8>, Self::Error> { Ok(s.get::<HashMap<u8, u8>>().and_then(|m| m.get(&k.0).copied())) }
  fn stamp_reader(&self, _k: &Setting, r: &mut u8) -> Result<Option<u8>, Self::Error> { Ok(Some(*r)) }
  fn stamp_writer(&self, _k: &Setting, _w: ()) -> Result<Option<u8>, Self::Error> { Ok(None) }
  fn check<RS: ResourceState<Setting>>(&self, k: &Setting, s: &mut RS, stamp: &Option<u8>) -> Result<Option<impl Debug>, Self::Error> { let now = s.get::<HashMap<u8, u8>>().and_then(|m| m.get(&k.0).copied()); Ok(if now != *stamp { Some(now) } else { None }) }
  fn wrap_error(&self, e: std::convert::Infallible) -> Self::Error { e }
}
thread_local! { static SETTING_RUNS: Cell<u32> = Cell::new(0); }
#[derive(Clone, PartialEq, Eq, Hash, Debug)] pub struct ReadsSetting(pub u8);
impl Task for ReadsSetting { type Output = u8; fn execute<C: Context>(&self, c: &mut C) -> u8 { SETTING_RUNS.with(|r| r.set(r.get() + 1)); c.read(&Setting(self.0), SettingEquals).unwrap() } }
pub fn read_stamp_is_taken_from_the_reader() -> Result<(), Fail> {
  SETTING_RUNS.with(|r| r.set(0));
  let mut pie: Pie<()> = Pie::default();
  let a = pie.new_session().require(&ReadsSetting(1));
  let b = pie.new_session().require(&ReadsSetting(1));   // nothing changed: the dependency created in the first build is consistent
  let runs = SETTING_RUNS.with(|r| r.get());
  if (a, b) != (7, 7) { fail!("C09", "C09.bounded.read_stamp_is_taken_from_the_reader_handed_to_the_task", "a task reading a setting (default 7) returned {} and then {}", a, b); }
  if runs != 1 { fail!("C09", "C09.bounded.read_stamp_is_taken_from_the_reader_handed_to_the_task", "nothing changed between two builds, yet the task reading a resource whose first read stores a default was executed {} times: the stamp of its read does not describe what the reader handed to the task saw", runs); }
  Ok(())
}

// ---- C15: a task and a resource never share a node, even when one type plays both roles with equal values ------------------------
#[derive(Clone, PartialEq, Eq, Hash, Debug)] pub struct Both(pub u8);
impl MapKey for Both { type Value = u8; }
impl Task for Both {
  type Output = Option<u8>;
  fn execute<C: Context>(&self, c: &mut C) -> Option<u8> { c.read(&Both(self.0), MapEqualsChecker).unwrap().copied() }   // the task reads the resource with ITS OWN key
}
#[derive(Clone, PartialEq, Eq, Hash, Debug)] pub struct UsesBoth(pub u8);
impl Task for UsesBoth {
  type Output = (Option<u8>, Option<u8>);
  fn execute<C: Context>(&self, c: &mut C) -> Self::Output { let a = c.require(&Both(self.0), EqualsChecker); let b = c.read(&Both(self.0 + 1), MapEqualsChecker).unwrap().copied(); let t = c.require(&Both(self.0 + 1), EqualsChecker); (a.or(t), b) }
}
pub fn task_and_resource_with_equal_keys() -> Result<(), Fail> {
  let run = || -> Result<(), Fail> {
    let mut pie: Pie<()> = Pie::default();
    pie.resource_state_mut::<Both>().get_global_map_mut().insert(Both(1), 10);
    let a = pie.new_session().require(&Both(1));
    if a != Some(10) { fail!("C15", "C15.bounded.a_task_and_a_resource_never_share_a_node", "task Both(1) reading resource Both(1) = 10 returned {:?}", a); }
    pie.resource_state_mut::<Both>().get_global_map_mut().insert(Both(1), 11);
    let b = pie.new_session().require(&Both(1));
    if b != Some(11) { fail!("C15", "C15.bounded.a_task_and_a_resource_never_share_a_node", "after resource Both(1) changed to 11, task Both(1) (which read it) returned {:?}: its read dependency was lost", b); }
    // resource node first, then the equal key as a task; and a requirer that has a require AND a read edge to equal keys
    pie.resource_state_mut::<Both>().get_global_map_mut().insert(Both(2), 20);
    let c = pie.new_session().require(&UsesBoth(1));
    if c != (Some(11), Some(20)) { fail!("C15", "C15.bounded.a_task_and_a_resource_never_share_a_node", "UsesBoth(1) returned {:?}, expected (Some(11), Some(20))", c); }
    pie.resource_state_mut::<Both>().get_global_map_mut().insert(Both(2), 21);
    let d = pie.new_session().require(&UsesBoth(1));
    if d != (Some(11), Some(21)) { fail!("C15", "C15.bounded.a_task_and_a_resource_never_share_a_node", "after resource Both(2) changed to 21, UsesBoth(1) returned {:?}", d); }
    Ok(())
  };
  match catch_unwind(AssertUnwindSafe(run)) { Ok(r) => r, Err(e) => fail!("C15", "C15.bounded.a_task_and_a_resource_never_share_a_node", "a type used as task and as resource key with equal values: the build aborted with {}", panic_msg(e)) }
}

// ---- C09: a checker may decide on the current state alone and carry no stamp at all (zero-sized stamp) ----------------------------
#[derive(Copy, Clone, PartialEq, Eq, Hash, Debug)] pub struct PresentNow;
impl ResourceChecker<Res> for PresentNow {
  type Stamp = (); type Error = std::convert::Infallible;
  fn stamp<RS: ResourceState<Res>>(&self, _k: &Res, _s: &mut RS) -> Result<(), Self::Error> { Ok(()) }
  fn stamp_reader(&self, _k: &Res, _r: &mut Option<&u8>) -> Result<(), Self::Error> { Ok(()) }
  fn stamp_writer(&self, _k: &Res, _w: MapWriter<'_, Res>) -> Result<(), Self::Error> { Ok(()) }
  fn check<RS: ResourceState<Res>>(&self, k: &Res, s: &mut RS, _stamp: &()) -> Result<Option<impl Debug>, Self::Error> { Ok(if s.get_global_map().get(k).is_none() { Some("absent") } else { None }) }
  fn wrap_error(&self, e: std::convert::Infallible) -> Self::Error { e }
}
#[derive(Copy, Clone, PartialEq, Eq, Hash, Debug)] pub struct EvenNow;
impl pie::OutputChecker<u32> for EvenNow {
  type Stamp = ();
  fn stamp(&self, _o: &u32) {}
  fn check(&self, o: &u32, _s: &()) -> Option<impl Debug> { if o % 2 == 1 { Some("odd") } else { None } }
}
thread_local! { static RUNS: Cell<u32> = Cell::new(0); }
#[derive(Clone, PartialEq, Eq, Hash, Debug)] pub struct NeedsCell(pub u8);
impl Task for NeedsCell { type Output = bool; fn execute<C: Context>(&self, c: &mut C) -> bool { RUNS.with(|r| r.set(r.get() + 1)); c.read(&Res(self.0), PresentNow).unwrap().is_some() } }
#[derive(Clone, PartialEq, Eq, Hash, Debug)] pub struct Leaf9(pub u8);
impl Task for Leaf9 { type Output = u32; fn execute<C: Context>(&self, c: &mut C) -> u32 { c.read(&Res(self.0), MapEqualsChecker).unwrap().copied().unwrap_or(0) as u32 } }
#[derive(Clone, PartialEq, Eq, Hash, Debug)] pub struct NeedsEven(pub u8);
impl Task for NeedsEven { type Output = u32; fn execute<C: Context>(&self, c: &mut C) -> u32 { RUNS.with(|r| r.set(r.get() + 1)); c.require(&Leaf9(self.0), EvenNow) } }
pub fn stampless_checkers() -> Result<(), Fail> {
  let runs = || RUNS.with(|r| r.get());
  // resource dependency, top-down and bottom-up
  for bottom_up in [false, true] {
    let mut pie: Pie<()> = Pie::default(); RUNS.with(|r| r.set(0));
    pie.resource_state_mut::<Res>().get_global_map_mut().insert(Res(7), 1);
    pie.new_session().require(&NeedsCell(7));
    pie.new_session().require(&NeedsCell(7));
    if runs() != 1 { fail!("C09", "C09.bounded.stampless_checker_decides", "a task whose stamp-less checker reports consistent was executed {} times in two builds", runs()); }
    pie.resource_state_mut::<Res>().get_global_map_mut().remove(&Res(7));
    let out = if bottom_up { let mut s = pie.new_session(); { let mut b = s.create_bottom_up_build(); b.schedule_tasks_affected_by(&Res(7)); b.update_affected_tasks(); } s.require(&NeedsCell(7)) } else { pie.new_session().require(&NeedsCell(7)) };
    if runs() != 2 || out { fail!("C09", "C09.bounded.stampless_checker_decides", "the stamp-less checker of the dependency reports `absent`, but the task was not re-executed ({} executions, output {}; bottom-up: {})", runs(), out, bottom_up); }
  }
  // require dependency with a stamp-less output checker
  {
    let mut pie: Pie<()> = Pie::default(); RUNS.with(|r| r.set(0));
    pie.resource_state_mut::<Res>().get_global_map_mut().insert(Res(8), 2);
    pie.new_session().require(&NeedsEven(8)); pie.new_session().require(&NeedsEven(8));
    if runs() != 1 { fail!("C09", "C09.bounded.stampless_checker_decides", "requirer executed {} times although its stamp-less output checker accepts the output", runs()); }
    pie.resource_state_mut::<Res>().get_global_map_mut().insert(Res(8), 3);
    let out = pie.new_session().require(&NeedsEven(8));
    if runs() != 2 || out != 3 { fail!("C09", "C09.bounded.stampless_checker_decides", "the required task now returns 3, which the stamp-less output checker rejects, but the requirer was not re-executed ({} executions, output {})", runs(), out); }
  }
  Ok(())
}

// ---- C18: the errors a session reports accumulate over all builds of the session -------------------------------------------------
pub fn session_errors_accumulate() -> Result<(), Fail> {
  PROG.with(|p| *p.borrow_mut() = vec![vec![Step::Read(0, 3)], vec![Step::Read(1, 0)]]); PANIC_IN.with(|p| p.set(None));
  for bottom_up_first in [false, true] {
    let mut pie = new_pie();
    pie.resource_state_mut::<Res>().get_global_map_mut().insert(Res(0), 1);
    pie.resource_state_mut::<Res>().get_global_map_mut().insert(Res(1), 1);
    FAIL_CHECK.with(|f| f.set(false));
    { let mut s = pie.new_session(); s.require(&T(0)); s.require(&T(1)); }
    clear_logs(&mut pie);
    let mut s = pie.new_session();
    FAIL_CHECK.with(|f| f.set(true));
    if bottom_up_first { let mut b = s.create_bottom_up_build(); b.schedule_tasks_affected_by(&Res(0)); b.update_affected_tasks(); } else { s.require(&T(0)); }
    FAIL_CHECK.with(|f| f.set(false));
    let after_first = s.dependency_check_errors().len();
    if after_first == 0 { fail!("C18", "C18.bounded.check_errors_are_reported", "a dependency check failed during the first build of a session ({}), the session reports no error", if bottom_up_first { "bottom-up" } else { "top-down" }); }
    s.require(&T(1));
    let after_second = s.dependency_check_errors().len();
    drop(s);
    // C17: every build of the session is bracketed by its own build-start and build-end (the stream of the two builds together)
    {
      let ev = &pie.tracker().0.ev;
      let mut open = 0i32; let mut builds = 0;
      for e in ev.iter().filter(|e| e.kind == "build") {
        if e.start { open += 1; builds += 1; if open != 1 { fail!("C17", "C17.bounded.every_completed_build_emits_its_start_and_end", "a build started while another build of the session was open"); } }
        else { open -= 1; if open != 0 { fail!("C17", "C17.bounded.every_completed_build_emits_its_start_and_end", "a build-end event closes no build: the second build of a session ({} first) has no build-start of its own", if bottom_up_first { "bottom-up" } else { "top-down" }); } }
      }
      if builds != 2 || open != 0 { fail!("C17", "C17.bounded.every_completed_build_emits_its_start_and_end", "two builds in one session produced {} build-start events ({} still open)", builds, open); }
    }
    if after_second < after_first { fail!("C18", "C18.bounded.errors_of_a_session_accumulate_over_its_builds", "the session reported {} dependency-check error(s) after its first build ({}), {} after a second build", after_first, if bottom_up_first { "bottom-up" } else { "top-down" }, after_second); }
  }
  Ok(())
}

/// fixed well-formed (program, history) cases with shapes the random generator rarely produces
pub fn fixed_cases() -> Vec<(&'static str, Vec<Vec<Step>>, Vec<Act>)> {
  use Step::*;
  vec![
    // bottom-up: y (popped first: created last) newly requires s = (a, b) while d under the LATER dependency b is still scheduled, and the
    // EARLIER dependency a is ordered after d (a was new when s was first built): the scheduled dependencies of s must be found
    ("nested require finds a scheduled task under a later dependency",
     vec![vec![Read(0, 1), IfOdd(vec![Require(1, 0)], vec![])], vec![Require(2, 0), Require(3, 0)], vec![], vec![Require(4, 0)], vec![Read(1, 0)]],
     vec![Act::Set(0, 0), Act::Set(1, 0), Act::TopDown(3), Act::TopDown(1), Act::TopDown(0), Act::Set(1, 1), Act::Set(0, 1), Act::BottomUp, Act::TopDown(0)]),
    // bottom-up: the generator T0 is re-executed and rewrites resource 2; the check of T1's read of resource 2 (a checker that fails
    // on demand) fails at exactly that point, i.e. not for a reported resource but for one written during the build
    ("a check that fails for a reader of a resource written during the bottom-up build",
     vec![vec![Read(0, 0), Write(2, 1)], vec![Require(0, 1), Read(2, 3)]],
     vec![Act::Set(0, 0), Act::TopDown(1), Act::Set(0, 1), Act::BottomUpFlaky, Act::TopDown(1)]),
    // a coarse output checker whose tolerance does not add up: 73 -> 74 is tolerated, 74 -> 75 is NOT tolerated by a dependency stamped at 73
    ("tolerated changes of a required output do not move the stamp the dependency was created with",
     vec![vec![Require(1, 2)], vec![Read(0, 0)]],
     vec![Act::Set(0, 10), Act::TopDown(0), Act::Set(0, 11), Act::TopDown(0), Act::Set(0, 12), Act::TopDown(0), Act::Set(0, 13), Act::TopDown(0)]),
    // tasks D=0 X=1 Y=2 A=3 F=4 E=5, each reading its own resource 10+id and requiring others depending on the parity of (id + value):
    // Y, A, F, E are reported; E starts requiring the old, unaffected D, which re-orders the graph (A moves in front of Y) while Y and A
    // are queued; X, which depends on Y, is then scheduled by F's new output: it must still run after Y
    ("the queue follows a re-ordering of the graph that happens during the build",
     vec![vec![Read(10, 0)], vec![Read(11, 0), IfOdd(vec![Require(2, 0), Require(4, 0)], vec![Require(2, 0)])], vec![Read(12, 0)], vec![Read(13, 0), IfOdd(vec![Require(5, 0)], vec![])], vec![Read(14, 0)], vec![Read(15, 0), IfOdd(vec![Require(0, 0)], vec![])]],
     vec![Act::Set(10, 1), Act::Set(11, 1), Act::Set(12, 1), Act::Set(13, 1), Act::Set(14, 1), Act::Set(15, 1),
          Act::TopDown(0), Act::TopDown(1), Act::TopDown(3), Act::TopDown(4), Act::TopDown(5),
          Act::Set(13, 2), Act::Set(11, 2), Act::TopDown(3), Act::TopDown(1),
          Act::Set(12, 3), Act::Set(13, 4), Act::Set(14, 3), Act::Set(15, 2), Act::BottomUp, Act::TopDown(1), Act::TopDown(3)]),
    // two different dependencies fail in one session with the same error message: both are reported
    ("two failing checks in one session are two reported errors",
     vec![vec![Read(0, 3)], vec![Read(1, 3)], vec![Require(0, 0), Require(1, 0)]],
     vec![Act::Set(0, 0), Act::Set(1, 0), Act::TopDown(2), Act::TopDownFlaky(2), Act::Set(0, 1), Act::Set(1, 1), Act::BottomUpFlaky, Act::TopDown(2)]),
    // the failing check is the one of a WRITE dependency (all earlier dependencies consistent), top-down and bottom-up
    ("a check that fails for a write dependency",
     vec![vec![Read(0, 0), WriteFlaky(2, 1)], vec![Require(0, 1), Read(2, 0)]],
     vec![Act::Set(0, 0), Act::TopDown(1), Act::TopDownFlaky(0), Act::TopDown(1), Act::Set(2, 9), Act::BottomUpFlaky, Act::TopDown(1)]),
    // two readers of one resource, the check of the one recorded FIRST fails: the other one is still checked and scheduled
    ("a failing check does not end the scheduling of the other dependents",
     vec![vec![Read(0, 3)], vec![Read(0, 0)], vec![Require(0, 0), Require(1, 0)]],
     vec![Act::Set(0, 0), Act::TopDown(2), Act::Set(0, 1), Act::BottomUpFlaky, Act::TopDown(2)]),
    ("a check that fails for a task validated two levels below the required root",
     vec![vec![Require(1, 0)], vec![Read(0, 3)]],
     vec![Act::Set(0, 0), Act::TopDown(0), Act::Set(0, 1), Act::TopDownFlaky(0), Act::TopDown(0)]),
  ]
}
