//! C14 bounded stand-in on the REAL map resource and the type-indexed resource state, through the public API
//! (`Pie::resource_state_mut::<R>()`, `Resource::{read, write}`, `MapWriter`, `GetGlobalMap`, `MapEqualsChecker`): random sequences of
//! operations over two key types (with different value types) and typed state accesses with matching and non-matching types, against
//! a model of "one slot per resource type".  Not a proof: the sequence length and count are the bound.
use std::collections::HashMap;
use pie::{Pie, Resource, ResourceChecker, ResourceState};
use pie::resource::map::{GetGlobalMap, MapEqualsChecker, MapKey};

pub struct Fail { pub prop: &'static str, pub ob: &'static str, pub what: String }
macro_rules! fail { ($o:expr, $($t:tt)*) => { return Err(Fail { prop: "C14", ob: $o, what: format!($($t)*) }) } }

#[derive(Clone, PartialEq, Eq, Hash, Debug)] pub struct A(pub u8);
#[derive(Clone, PartialEq, Eq, Hash, Debug)] pub struct B(pub u8);
impl MapKey for A { type Value = u8; }
impl MapKey for B { type Value = String; }

/// what the slot of one resource type holds
#[derive(Clone, Debug, PartialEq)]
enum Slot<V> { Empty, Map(HashMap<u8, V>), U32(u32), Str(String), /** a state of type Box<dyn Any> (holding this u32) */ AnyBox(u32) }
impl<V: Clone> Slot<V> { fn map(&self) -> HashMap<u8, V> { match self { Slot::Map(m) => m.clone(), _ => HashMap::new() } } }

#[derive(Clone, Debug)]
pub enum Op { Read(u8), Insert(u8, u8), WriterGet(u8), WriterGetMutSet(u8, u8), EntryOrInsert(u8, u8), EntryRemove(u8), DirectInsert(u8, u8), DirectRemove(u8),
              SetU32(u32), SetStr(u8), GetU32, GetStr, GetMap, GetMutU32Add, SetBoxedU32(u32), GetBoxedKind, BoxedMutToStr(u8), SetAnyBoxState(u32), GetAnyBoxState, DefaultU32, DefaultStrPush, Checker(u8), /** check against a given stamp, without stamping first */ CheckOnly(u8, Option<u8>) }

pub trait ValOf: Sized + Clone + PartialEq + std::fmt::Debug + 'static { fn of(x: u8) -> Self; }
impl ValOf for u8 { fn of(x: u8) -> u8 { x } }
impl ValOf for String { fn of(x: u8) -> String { format!("v{}", x) } }

fn apply<K, F>(pie: &mut Pie<()>, mk: F, slot: &mut Slot<K::Value>, op: &Op, who: &str) -> Result<(), Fail>
  where K: MapKey + Resource + Clone + std::fmt::Debug, K::Value: ValOf + Eq, F: Fn(u8) -> K,
        for<'a> K: Resource<Reader<'a> = Option<&'a K::Value>, Writer<'a> = pie::resource::map::MapWriter<'a, K>>, <K as Resource>::Error: std::fmt::Debug
{
  let state = pie.resource_state_mut::<K>();
  let touch_map = |slot: &mut Slot<K::Value>| { if !matches!(slot, Slot::Map(_)) { *slot = Slot::Map(HashMap::new()); } };
  match op {
    Op::Read(k) => {
      let exp = slot.map().get(k).cloned();
      let got = mk(*k).read(state).unwrap().cloned();
      touch_map(slot);
      if got != exp { fail!("C14.bounded.read_yields_the_value_most_recently_stored", "{}: read({}) = {:?}, expected {:?}", who, k, got, exp); }
    }
    Op::Insert(k, v) => {
      let key = mk(*k); let mut w = key.write(state).unwrap();
      let prev = w.insert(K::Value::of(*v)); let exp_prev = slot.map().get(k).cloned();
      touch_map(slot); if let Slot::Map(m) = slot { m.insert(*k, K::Value::of(*v)); }
      if prev != exp_prev { fail!("C14.bounded.writer_insert_returns_the_previous_value", "{}: insert({},{}) returned {:?}, expected {:?}", who, k, v, prev, exp_prev); }
    }
    Op::WriterGet(k) => {
      let key = mk(*k); let w = key.write(state).unwrap();
      let got = w.get().cloned(); let exp = slot.map().get(k).cloned(); touch_map(slot);
      if got != exp { fail!("C14.bounded.read_yields_the_value_most_recently_stored", "{}: writer.get({}) = {:?}, expected {:?}", who, k, got, exp); }
    }
    Op::WriterGetMutSet(k, v) => {
      let key = mk(*k); let mut w = key.write(state).unwrap();
      let had = w.get_mut().map(|x| { *x = K::Value::of(*v); }).is_some();
      let exp_had = slot.map().contains_key(k); touch_map(slot); if exp_had { if let Slot::Map(m) = slot { m.insert(*k, K::Value::of(*v)); } }
      if had != exp_had { fail!("C14.bounded.read_yields_the_value_most_recently_stored", "{}: writer.get_mut({}) is_some = {}, expected {}", who, k, had, exp_had); }
    }
    Op::EntryOrInsert(k, v) => {
      let key = mk(*k); let mut w = key.write(state).unwrap();
      let got = w.entry().or_insert(K::Value::of(*v)).clone();
      touch_map(slot); let exp = if let Slot::Map(m) = slot { m.entry(*k).or_insert(K::Value::of(*v)).clone() } else { unreachable!() };
      if got != exp { fail!("C14.bounded.read_yields_the_value_most_recently_stored", "{}: entry({}).or_insert = {:?}, expected {:?}", who, k, got, exp); }
    }
    Op::EntryRemove(k) => {
      let key = mk(*k); let mut w = key.write(state).unwrap();
      let got = match w.entry() { std::collections::hash_map::Entry::Occupied(e) => Some(e.remove()), _ => None };
      touch_map(slot); let exp = if let Slot::Map(m) = slot { m.remove(k) } else { None };
      if got != exp { fail!("C14.bounded.read_yields_the_value_most_recently_stored", "{}: entry({}) removal = {:?}, expected {:?}", who, k, got, exp); }
    }
    Op::DirectInsert(k, v) => { state.get_global_map_mut().insert(mk(*k), K::Value::of(*v)); touch_map(slot); if let Slot::Map(m) = slot { m.insert(*k, K::Value::of(*v)); } }
    Op::DirectRemove(k) => { let got = state.get_global_map_mut().remove(&mk(*k)); touch_map(slot); let exp = if let Slot::Map(m) = slot { m.remove(k) } else { None };
      if got != exp { fail!("C14.bounded.read_yields_the_value_most_recently_stored", "{}: direct remove({}) = {:?}, expected {:?}", who, k, got, exp); } }
    Op::SetU32(x) => { state.set::<u32>(*x); *slot = Slot::U32(*x); }
    Op::SetStr(x) => { state.set::<String>(format!("s{}", x)); *slot = Slot::Str(format!("s{}", x)); }
    Op::SetAnyBoxState(x) => { state.set::<Box<dyn std::any::Any>>(Box::new(*x)); *slot = Slot::AnyBox(*x); }
    Op::GetAnyBoxState => {
      let got = state.get::<Box<dyn std::any::Any>>().map(|b| b.as_ref().downcast_ref::<u32>().copied());
      let exp = if let Slot::AnyBox(x) = slot { Some(Some(*x)) } else { None };
      if got != exp { fail!("C14.bounded.typed_get_sees_only_a_state_of_that_type", "{}: get::<Box<dyn Any>>() = {:?}, slot holds {:?}", who, got, slot); }
    }
    Op::SetBoxedU32(x) => { state.set_boxed(Box::new(*x)); *slot = Slot::U32(*x); }
    Op::GetBoxedKind => {
      let kind = |b: &Box<dyn std::any::Any>| if b.as_ref().is::<u32>() { "u32" } else if b.as_ref().is::<String>() { "string" } else if b.as_ref().is::<HashMap<K, K::Value>>() { "map" } else { "something else" };
      let got = state.get_boxed().map(kind);
      let exp = match slot { Slot::Empty => None, Slot::Map(_) => Some("map"), Slot::U32(_) => Some("u32"), Slot::Str(_) => Some("string"), Slot::AnyBox(_) => Some("something else") };
      if got != exp { fail!("C14.bounded.boxed_access_sees_the_box_of_the_slot", "{}: get_boxed() holds {:?}, slot holds {:?}", who, got, slot); }
    }
    Op::BoxedMutToStr(x) => {
      let got = state.get_boxed_mut().map(|b| { *b = Box::new(format!("s{}", x)); }).is_some();
      let exp = !matches!(slot, Slot::Empty); if exp { *slot = Slot::Str(format!("s{}", x)); }
      if got != exp { fail!("C14.bounded.boxed_access_sees_the_box_of_the_slot", "{}: get_boxed_mut() is_some = {}, slot held {:?}", who, got, slot); }
    }
    Op::GetU32 => { let got = state.get::<u32>().copied(); let exp = if let Slot::U32(x) = slot { Some(*x) } else { None };
      if got != exp { fail!("C14.bounded.typed_get_sees_only_a_state_of_that_type", "{}: get::<u32>() = {:?}, slot holds {:?}", who, got, slot); } }
    Op::GetStr => { let got = state.get::<String>().cloned(); let exp = if let Slot::Str(x) = slot { Some(x.clone()) } else { None };
      if got != exp { fail!("C14.bounded.typed_get_sees_only_a_state_of_that_type", "{}: get::<String>() = {:?}, slot holds {:?}", who, got, slot); } }
    Op::GetMap => { let got = state.get::<HashMap<K, K::Value>>().map(|m| m.len()); let exp = if let Slot::Map(m) = slot { Some(m.len()) } else { None };
      if got != exp { fail!("C14.bounded.typed_get_sees_only_a_state_of_that_type", "{}: get::<HashMap>() has {:?} entries, slot holds {:?}", who, got, slot); } }
    Op::GetMutU32Add => { let got = state.get_mut::<u32>().map(|x| { *x = x.wrapping_add(1); *x }); let exp = if let Slot::U32(x) = slot { *x = x.wrapping_add(1); Some(*x) } else { None };
      if got != exp { fail!("C14.bounded.typed_get_sees_only_a_state_of_that_type", "{}: get_mut::<u32>() = {:?}, expected {:?}", who, got, exp); } }
    Op::DefaultU32 => { let got = *state.get_or_set_default::<u32>(); let exp = if let Slot::U32(x) = slot { *x } else { *slot = Slot::U32(0); 0 };
      if got != exp { fail!("C14.bounded.get_or_set_default_keeps_a_matching_state_else_default", "{}: get_or_set_default::<u32>() = {}, expected {}", who, got, exp); } }
    Op::DefaultStrPush => { let s = state.get_or_set_default_mut::<String>(); s.push('x'); let got = s.clone();
      let exp = if let Slot::Str(x) = slot { x.push('x'); x.clone() } else { *slot = Slot::Str("x".to_string()); "x".to_string() };
      if got != exp { fail!("C14.bounded.get_or_set_default_keeps_a_matching_state_else_default", "{}: get_or_set_default_mut::<String>() then push = {:?}, expected {:?}", who, got, exp); } }
    Op::CheckOnly(k, st) => {
      let key = mk(*k); let c = MapEqualsChecker;
      let cur = slot.map().get(k).cloned(); let stamp = st.map(K::Value::of);
      let verdict = c.check(&key, state, &stamp).unwrap().is_none();
      touch_map(slot);
      if verdict != (cur == stamp) { fail!("C14.bounded.check_consistent_iff_current_equals_stamp", "{}: key {}: current {:?}, stamp {:?}: check says consistent = {}", who, k, cur, stamp, verdict); }
    }
    Op::Checker(k) => {
      let key = mk(*k); let c = MapEqualsChecker;
      let cur = slot.map().get(k).cloned();
      let by_state = c.stamp(&key, state).unwrap();
      let by_reader = { let mut r = key.read(state).unwrap(); c.stamp_reader(&key, &mut r).unwrap() };
      let by_writer = { let w = key.write(state).unwrap(); c.stamp_writer(&key, w).unwrap() };
      touch_map(slot);
      if by_state != cur || by_reader != cur || by_writer != cur { fail!("C14.bounded.stamp_routes_agree_with_the_current_value", "{}: key {}: current {:?}, stamps: state {:?} reader {:?} writer {:?}", who, k, cur, by_state, by_reader, by_writer); }
      if c.check(&key, state, &cur).unwrap().is_some() { fail!("C14.bounded.check_consistent_iff_current_equals_stamp", "{}: key {}: check against the current value {:?} is inconsistent", who, k, cur); }
      let other: Option<K::Value> = match &cur { Some(_) => None, None => Some(K::Value::of(9)) };
      if c.check(&key, state, &other).unwrap().is_none() { fail!("C14.bounded.check_consistent_iff_current_equals_stamp", "{}: key {}: current {:?}, check against {:?} is consistent", who, k, cur, other); }
      if let Some(v) = &cur { let diff = Some(if *v == K::Value::of(1) { K::Value::of(2) } else { K::Value::of(1) });
        if c.check(&key, state, &diff).unwrap().is_none() { fail!("C14.bounded.check_consistent_iff_current_equals_stamp", "{}: key {}: current {:?}, check against {:?} is consistent", who, k, cur, diff); } }
    }
  }
  Ok(())
}

pub struct Rng(pub u64);
impl Rng { fn next(&mut self) -> u64 { self.0 ^= self.0 << 13; self.0 ^= self.0 >> 7; self.0 ^= self.0 << 17; self.0 } fn below(&mut self, n: usize) -> usize { (self.next() % n as u64) as usize } }

pub fn gen(rng: &mut Rng, len: usize) -> Vec<(bool, Op)> {
  (0..len).map(|_| {
    let k = rng.below(3) as u8; let v = 1 + rng.below(4) as u8;
    let op = match rng.below(27) {
      0 | 1 => Op::Read(k), 2 | 3 => Op::Insert(k, v), 4 => Op::WriterGet(k), 5 => Op::WriterGetMutSet(k, v), 6 => Op::EntryOrInsert(k, v), 7 => Op::EntryRemove(k),
      8 => Op::DirectInsert(k, v), 9 => Op::DirectRemove(k), 10 => Op::SetU32(v as u32), 11 => Op::SetStr(v), 12 => Op::GetU32, 13 => Op::GetStr, 14 => Op::GetMap,
      15 => Op::GetMutU32Add, 16 => Op::DefaultU32, 17 => Op::DefaultStrPush, 18 | 19 => Op::CheckOnly(k, if rng.below(3) == 0 { None } else { Some(v) }), 20 | 21 => Op::Checker(k),
      22 => Op::SetBoxedU32(v as u32), 23 => Op::GetBoxedKind, 24 => Op::BoxedMutToStr(v), 25 => Op::SetAnyBoxState(v as u32), _ => Op::GetAnyBoxState };
    (rng.below(2) == 0, op)
  }).collect()
}

/// runs one sequence; after every operation on one resource type the slot of the other type must be exactly what the model says
pub fn run(ops: &[(bool, Op)]) -> Result<(), (usize, Fail)> {
  let mut pie: Pie<()> = Pie::default();
  let mut sa: Slot<u8> = Slot::Empty; let mut sb: Slot<String> = Slot::Empty;
  for (i, (on_a, op)) in ops.iter().enumerate() {
    if *on_a { apply::<A, _>(&mut pie, A, &mut sa, op, "key type A").map_err(|f| (i, f))?; } else { apply::<B, _>(&mut pie, B, &mut sb, op, "key type B").map_err(|f| (i, f))?; }
    // isolation: observe both slots through read-only typed gets
    let (ga_map, ga_u, ga_s, ga_x) = { let s = pie.resource_state_mut::<A>(); (s.get::<HashMap<A, u8>>().map(|m| m.iter().map(|(k, v)| (k.0, *v)).collect::<HashMap<u8, u8>>()), s.get::<u32>().copied(), s.get::<String>().cloned(), s.get::<Box<dyn std::any::Any>>().map(|b| b.as_ref().downcast_ref::<u32>().copied().unwrap_or(u32::MAX))) };
    let (gb_map, gb_u, gb_s, gb_x) = { let s = pie.resource_state_mut::<B>(); (s.get::<HashMap<B, String>>().map(|m| m.iter().map(|(k, v)| (k.0, v.clone())).collect::<HashMap<u8, String>>()), s.get::<u32>().copied(), s.get::<String>().cloned(), s.get::<Box<dyn std::any::Any>>().map(|b| b.as_ref().downcast_ref::<u32>().copied().unwrap_or(u32::MAX))) };
    let obs_a = match (ga_map, ga_u, ga_s, ga_x) { (Some(m), None, None, None) => Slot::Map(m), (None, Some(x), None, None) => Slot::U32(x), (None, None, Some(x), None) => Slot::Str(x), (None, None, None, Some(x)) => Slot::AnyBox(x), (None, None, None, None) => Slot::Empty, o => return Err((i, Fail { prop: "C14", ob: "C14.bounded.one_state_per_resource_type", what: format!("slot of A shows several states at once: {:?}", o) })) };
    let obs_b = match (gb_map, gb_u, gb_s, gb_x) { (Some(m), None, None, None) => Slot::Map(m), (None, Some(x), None, None) => Slot::U32(x), (None, None, Some(x), None) => Slot::Str(x), (None, None, None, Some(x)) => Slot::AnyBox(x), (None, None, None, None) => Slot::Empty, o => return Err((i, Fail { prop: "C14", ob: "C14.bounded.one_state_per_resource_type", what: format!("slot of B shows several states at once: {:?}", o) })) };
    if obs_a != sa { return Err((i, Fail { prop: "C14", ob: if *on_a { "C14.bounded.state_of_the_accessed_type_is_what_was_stored" } else { "C14.bounded.other_resource_types_see_no_change" }, what: format!("after {:?} on {}: slot of A is {:?}, expected {:?}", op, if *on_a { "A" } else { "B" }, obs_a, sa) })); }
    if obs_b != sb { return Err((i, Fail { prop: "C14", ob: if !*on_a { "C14.bounded.state_of_the_accessed_type_is_what_was_stored" } else { "C14.bounded.other_resource_types_see_no_change" }, what: format!("after {:?} on {}: slot of B is {:?}, expected {:?}", op, if *on_a { "A" } else { "B" }, obs_b, sb) })); }
  }
  Ok(())
}

/// Two DISTINCT key types with the same `std::any::type_name` (declared in different blocks of one function) and different value
/// types: state stored for one must not be visible through, or replaced by, an access for the other.
pub fn twins() -> Result<(), Fail> {
  let mut pie: Pie<()> = Pie::default();
  let read_first: Box<dyn Fn(&mut Pie<()>) -> (Option<u8>, Option<u32>)> = {
    #[derive(Clone, PartialEq, Eq, Hash, Debug)] struct K(u8);
    impl MapKey for K { type Value = u8; }
    { let state = pie.resource_state_mut::<K>(); let key = K(1); let mut w = key.write(state).unwrap(); w.insert(10); }
    Box::new(|pie: &mut Pie<()>| { let state = pie.resource_state_mut::<K>(); let v = K(1).read(state).unwrap().cloned(); (v, state.get::<u32>().copied()) })
  };
  {
    #[derive(Clone, PartialEq, Eq, Hash, Debug)] struct K(u8);
    impl MapKey for K { type Value = String; }
    let state = pie.resource_state_mut::<K>();
    if let Some(m) = state.get::<HashMap<K, String>>() { if !m.is_empty() { fail!("C14.bounded.resource_types_with_the_same_name_are_isolated", "the second type K sees a non-empty map before storing anything"); } }
    let got = K(1).read(state).unwrap().cloned();
    if got.is_some() { fail!("C14.bounded.resource_types_with_the_same_name_are_isolated", "reading K(1) of the second type K yields {:?} although only the first type stored a value", got); }
    state.set::<u32>(7);
  }
  let (v, u) = read_first(&mut pie);
  if v != Some(10) { fail!("C14.bounded.resource_types_with_the_same_name_are_isolated", "the first type K stored 10 for K(1); after accesses for another type with the same type_name it reads {:?}", v); }
  if u.is_some() { fail!("C14.bounded.resource_types_with_the_same_name_are_isolated", "state set for the second type K is visible through the first: {:?}", u); }
  Ok(())
}
