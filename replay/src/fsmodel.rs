//! C13 bounded stand-in on the REAL filesystem resource and its three checkers: every ordered pair (state when stamped, state when
//! checked) over a small family of path states (absent; files of sizes around and beyond the BufReader buffer with explicitly set
//! modification times, including times that move backwards and same-size/same-time content changes; directories with small name
//! sets), the three stamp routes, reading through a stamped reader, and `Resource::write`.  Not a proof: the family is the bound.
use std::fs::{self, File};
use std::io::{Read, Write};
use std::path::{Path, PathBuf};
use std::time::{Duration, SystemTime};
use pie::{Resource, ResourceChecker};
use pie::resource::file::{ExistsChecker, ModifiedChecker, OpenRead};
use pie::resource::file::hash_checker::HashChecker;
use pie::{Pie, Context, Task};

pub struct Fail { pub prop: &'static str, pub ob: &'static str, pub what: String }
macro_rules! fail { ($o:expr, $($t:tt)*) => { return Err(Fail { prop: if $o.starts_with("C05") { "C05" } else if $o.starts_with("C06") { "C06" } else { "C13" }, ob: $o, what: format!($($t)*) }) } }

#[derive(Clone, Debug, PartialEq)]
pub enum St { Absent, File { size: usize, fill: u8, t: u64 }, Dir { names: Vec<&'static [u8]>, t: u64 } }

/// fill 0: `size` NUL bytes (states that differ only in how many NUL bytes end the file)
fn content(size: usize, fill: u8) -> Vec<u8> { if fill == 0 { return vec![0u8; size]; } (0..size).map(|i| fill.wrapping_add((i % 251) as u8)).collect() }
fn time(t: u64) -> SystemTime { SystemTime::UNIX_EPOCH + Duration::from_secs(1_600_000_000 + t * 1000) + Duration::from_nanos(t * 7) }

fn clear(p: &Path) { if let Ok(m) = fs::symlink_metadata(p) { if m.is_dir() { let _ = fs::remove_dir_all(p); } else { let _ = fs::remove_file(p); } } }
fn materialize(p: &Path, s: &St) -> std::io::Result<()> {
  clear(p);
  match s {
    St::Absent => {}
    St::File { size, fill, t } => { let mut f = File::create(p)?; f.write_all(&content(*size, *fill))?; f.flush()?; f.set_modified(time(*t))?; }
    St::Dir { names, t } => { fs::create_dir(p)?; for n in names { File::create(p.join(<std::ffi::OsStr as std::os::unix::ffi::OsStrExt>::from_bytes(n)))?; } File::open(p)?.set_modified(time(*t))?; }
  }
  Ok(())
}
pub fn states() -> Vec<St> {
  let mut v = vec![St::Absent];
  for (size, fill, t) in [(0usize, 1u8, 1u64), (1, 1, 1), (1, 2, 1), (1, 1, 2), (5, 1, 3), (8191, 1, 3), (8192, 1, 3), (8192, 9, 3), (8193, 1, 2), (20000, 1, 5), (20000, 4, 5), (20000, 1, 4),
    (1, 0, 1), (2, 0, 1), (3, 0, 2), (70000, 0, 3), (70001, 0, 3)] { v.push(St::File { size, fill, t }); }
  let dirs: Vec<(Vec<&'static [u8]>, u64)> = vec![(vec![], 1u64), (vec![b"a"], 1), (vec![b"a", b"b"], 1), (vec![b"ab"], 1), (vec![b"a", b"b"], 2), (vec![b"ba"], 2), (vec![b"b", b"a"], 3),
    // names that are not valid UTF-8 and differ only in such a byte
    (vec![b"gen_\xFF.o"], 4), (vec![b"gen_\xFE.o"], 4),
    // names containing a line feed that splits into the names of another listing (in either enumeration order)
    (vec![b"a\nb"], 1), (vec![b"b\na"], 1)];
  for (names, t) in dirs { v.push(St::Dir { names, t }); }
  v
}
fn exists_of(s: &St) -> bool { !matches!(s, St::Absent) }
fn mtime_of(s: &St) -> Option<u64> { match s { St::Absent => None, St::File { t, .. } | St::Dir { t, .. } => Some(*t) } }
fn nameset(n: &Vec<&'static [u8]>) -> Vec<&'static [u8]> { let mut v = n.clone(); v.sort(); v }
/// Some(true): the observed aspect differs (must be inconsistent); Some(false): equal (must be consistent); None: not claimed
fn hash_differs(a: &St, b: &St) -> Option<bool> {
  match (a, b) {
    (St::Absent, St::Absent) => Some(false),
    (St::Absent, _) | (_, St::Absent) => Some(true),
    (St::File { size: s1, fill: f1, .. }, St::File { size: s2, fill: f2, .. }) => Some(content(*s1, *f1) != content(*s2, *f2)),
    (St::Dir { names: n1, .. }, St::Dir { names: n2, .. }) => if nameset(n1) != nameset(n2) { Some(true) } else { None },
    _ => None, // change of kind between file and directory: not claimed for the hash checker
  }
}

fn read_through(p: &PathBuf, r: &mut OpenRead, s: &St, who: &str) -> Result<(), Fail> {
  if let St::File { size, fill, .. } = s {
    let Some(f) = r.as_file() else { fail!("C13.bounded.reader_shows_the_path_state", "{}: reader of a file is not a file ({:?})", who, p) };
    let mut got = vec![]; f.read_to_end(&mut got).map_err(|e| Fail { prop: "C13", ob: "C13.bounded.stamped_reader_reads_the_full_content", what: format!("{}", e) })?;
    if got != content(*size, *fill) { fail!("C13.bounded.stamped_reader_reads_the_full_content", "{}: after stamp_reader a read yields {} of {} bytes (state {:?})", who, got.len(), size, s); }
  }
  Ok(())
}

macro_rules! io { ($e:expr, $w:expr) => { $e.map_err(|e| Fail { prop: "C13", ob: "C13.bounded.io_error", what: format!("{}: {:?}", $w, e) })? } }

/// one checker over one ordered pair of states
fn pair<C: ResourceChecker<PathBuf>>(c: &C, name: &str, p: &PathBuf, s1: &St, s2: &St, differs: Option<bool>) -> Result<(), Fail>
  where C::Stamp: PartialEq + std::fmt::Debug
{
  let mut pie_instance = Pie::default(); let state = pie_instance.resource_state_mut::<PathBuf>();
  io!(materialize(p, s1), "materialize");
  let by_path = io!(c.stamp(p, state), "stamp");
  let mut r = io!(p.read(state), "read");
  let by_reader = io!(c.stamp_reader(p, &mut r), "stamp_reader");
  if by_path != by_reader { fail!("C13.bounded.stamp_routes_agree", "{}: stamp from the path {:?} != stamp from a fresh reader {:?} in state {:?}", name, by_path, by_reader, s1); }
  read_through(p, &mut r, s1, name)?;
  drop(r);
  // untouched => consistent
  if let Some(i) = io!(c.check(p, state, &by_path), "check") { fail!("C13.bounded.untouched_is_consistent", "{}: state {:?} stamped and checked untouched: inconsistent ({:?})", name, s1, i); }
  io!(materialize(p, s2), "materialize");
  let verdict = io!(c.check(p, state, &by_path), "check").map(|i| format!("{:?}", i));
  match differs {
    Some(true) => if verdict.is_none() { fail!("C13.bounded.differing_aspect_is_inconsistent", "{}: stamped in {:?}, checked in {:?}: reported consistent", name, s1, s2); },
    Some(false) => if let Some(i) = verdict { fail!("C13.bounded.equal_aspect_is_consistent", "{}: stamped in {:?}, checked in {:?}: reported inconsistent ({})", name, s1, s2, i); },
    None => {}
  }
  Ok(())
}

/// the writer route: a task writes through `Resource::write`, the checker stamps the just-used writer
fn writer_route<C: ResourceChecker<PathBuf>>(c: &C, name: &str, p: &PathBuf, before: &St, size: usize, fill: u8) -> Result<(), Fail>
  where C::Stamp: PartialEq + std::fmt::Debug
{
  let mut pie_instance = Pie::default(); let state = pie_instance.resource_state_mut::<PathBuf>();
  io!(materialize(p, before), "materialize");
  let res = p.write(state);
  if matches!(before, St::Dir { .. }) {
    if res.is_ok() { fail!("C13.bounded.write_refuses_directories", "Resource::write on a directory succeeded"); }
    return Ok(());
  }
  let mut w = io!(res, "write");
  let len0 = io!(fs::metadata(p), "metadata").len();
  if len0 != 0 { fail!("C13.bounded.write_creates_or_truncates", "opened for writing over {:?}: length is {} (not truncated)", before, len0); }
  io!(w.write_all(&content(size, fill)), "write_all"); io!(w.flush(), "flush");
  let by_writer = io!(c.stamp_writer(p, w), "stamp_writer");
  let by_path = io!(c.stamp(p, state), "stamp");
  if by_writer != by_path { fail!("C13.bounded.stamp_routes_agree", "{}: stamp from the just-used writer {:?} != stamp from the path {:?} (wrote {} bytes over {:?})", name, by_writer, by_path, size, before); }
  if let Some(i) = io!(c.check(p, state, &by_writer), "check") { fail!("C13.bounded.untouched_is_consistent", "{}: written, stamped from the writer, checked untouched: inconsistent ({:?})", name, i); }
  let got = io!(fs::read(p), "read");
  if got != content(size, fill) { fail!("C13.bounded.write_creates_or_truncates", "file content after writing {} bytes over {:?} has {} bytes", size, before, got.len()); }
  Ok(())
}

pub fn run_index(dir: &Path, ix: usize) -> Result<(), Fail> {
  let ss = states(); let n = ss.len();
  let p = dir.join("subject");
  if ix < n * n {
    let (s1, s2) = (&ss[ix / n], &ss[ix % n]);
    pair(&ExistsChecker, "ExistsChecker", &p, s1, s2, Some(exists_of(s1) != exists_of(s2)))?;
    pair(&ModifiedChecker, "ModifiedChecker", &p, s1, s2, Some(mtime_of(s1) != mtime_of(s2)))?;
    pair(&HashChecker, "HashChecker", &p, s1, s2, hash_differs(s1, s2))?;
  } else {
    let k = ix - n * n; let before = &ss[k % n]; let (size, fill) = [(0usize, 3u8), (3, 3), (8192, 5), (8193, 5), (30000, 6)][(k / n) % 5];
    writer_route(&ExistsChecker, "ExistsChecker", &p, before, size, fill)?;
    writer_route(&ModifiedChecker, "ModifiedChecker", &p, before, size, fill)?;
    writer_route(&HashChecker, "HashChecker", &p, before, size, fill)?;
  }
  Ok(())
}
pub fn cases() -> usize { let n = states().len(); n * n + n * 5 }
pub fn scratch() -> PathBuf { let d = std::env::temp_dir().join(format!("pie_replay_fs_{}", std::process::id())); let _ = fs::remove_dir_all(&d); fs::create_dir_all(&d).unwrap(); d }
pub fn cleanup(d: &Path) { let _ = fs::remove_dir_all(d); }

// ---- builds over real files: a diagnosed violation on the writing side aborts before the file is touched (C05/C06) ----------------
#[derive(Clone, PartialEq, Eq, Hash, Debug)] pub struct WriteFile(pub PathBuf, pub &'static str, pub u8);
impl Task for WriteFile {
  type Output = bool;
  fn execute<C: Context>(&self, c: &mut C) -> bool { c.write(&self.0, ModifiedChecker, |f: &mut File| { f.write_all(self.1.as_bytes()).map_err(|e| e.kind())?; Ok(()) }).is_ok() }
}
#[derive(Clone, PartialEq, Eq, Hash, Debug)] pub struct ReadFile(pub PathBuf);
impl Task for ReadFile {
  type Output = Option<String>;
  fn execute<C: Context>(&self, c: &mut C) -> Option<String> {
    let mut r = c.read(&self.0, ModifiedChecker).ok()?; let mut s = String::new();
    if let Some(f) = r.as_file() { f.read_to_string(&mut s).ok()?; Some(s) } else { None }
  }
}
fn panic_text(e: Box<dyn std::any::Any + Send>) -> String { e.downcast_ref::<String>().cloned().or_else(|| e.downcast_ref::<&str>().map(|s| s.to_string())).unwrap_or_default() }
pub fn file_builds(dir: &Path) -> Result<(), Fail> {
  use std::panic::{catch_unwind, AssertUnwindSafe};
  let p = dir.join("generated.txt");
  // overlapping write, same and next session
  for next_session in [false, true] {
    clear(&p);
    let mut pie: Pie<()> = Pie::default();
    let second = catch_unwind(AssertUnwindSafe(|| {
      let mut s = pie.new_session(); s.require(&WriteFile(p.clone(), "one", 1));
      if next_session { drop(s); let mut s2 = pie.new_session(); s2.require(&WriteFile(p.clone(), "two", 2)) } else { s.require(&WriteFile(p.clone(), "two", 2)) }
    }));
    match second {
      Ok(_) => fail!("C06.bounded.overlapping_write_to_a_file_aborts", "a second task wrote {:?} without an abort (next session: {})", p, next_session),
      Err(e) => { let m = panic_text(e); if !m.starts_with("Overlapping write") { fail!("C06.bounded.overlapping_write_to_a_file_aborts", "expected an overlapping-write abort, got `{}`", m); } }
    }
    let now = fs::read_to_string(&p).unwrap_or_default();
    if now != "one" { fail!("C06.bounded.abort_before_the_file_is_modified", "after the overlapping-write abort the file holds {:?}, the first writer wrote \"one\" (next session: {})", now, next_session); }
  }
  // hidden dependency diagnosed on the writing side: a recorded reader, then a writer the reader does not require
  {
    clear(&p); io_plain(fs::write(&p, "hand-written"))?;
    let mut pie: Pie<()> = Pie::default();
    let r = catch_unwind(AssertUnwindSafe(|| { let mut s = pie.new_session(); s.require(&ReadFile(p.clone())); s.require(&WriteFile(p.clone(), "generated", 3)) }));
    match r {
      Ok(_) => fail!("C05.bounded.hidden_write_to_a_file_aborts", "a task wrote a file another task had read, without an abort"),
      Err(e) => { let m = panic_text(e); if !m.starts_with("Hidden dependency") { fail!("C05.bounded.hidden_write_to_a_file_aborts", "expected a hidden-dependency abort, got `{}`", m); } }
    }
    let now = fs::read_to_string(&p).unwrap_or_default();
    if now != "hand-written" { fail!("C05.bounded.abort_before_the_file_is_modified", "after the hidden-dependency abort the file holds {:?} instead of \"hand-written\"", now); }
  }
  Ok(())
}
fn io_plain<T>(r: std::io::Result<T>) -> Result<T, Fail> { r.map_err(|e| Fail { prop: "C13", ob: "C13.bounded.io_error", what: format!("{:?}", e) }) }
