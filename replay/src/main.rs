//! Bounded stand-in + concrete counterexample search on the REAL pie_graph crate (path dependency on /repo/graph).
//! A reference model (plain vectors) gives the expected answer of every operation and query; the executable rendering
//! of the contracts of contracts/graph.vc is evaluated after every operation.  Not a proof: the bound is printed.
//!
//!   pie_replay graph --k K --l L [--random N --len M --seed S]     enumerate; prints one JSON line per violation (max 5)
//!   pie_replay replay '<json ops>'                                   run exactly one recorded operation sequence
use pie_graph::{DAG, Error, Node};
mod piemodel;
mod fsmodel;
mod mapmodel;

#[derive(Clone, Copy, Debug, PartialEq)]
enum Op { AddNode, AddEdge(usize, usize), RemoveEdge(usize, usize), RemoveOut(usize), RemoveNode(usize), /** start over with a new DAG instance (same thread) */ New }

/// reference model: what the contracts say
#[derive(Default, Clone)]
struct Model {
  present: Vec<bool>,                  // per issued node
  children: Vec<Vec<usize>>,           // insertion order
  parents: Vec<Vec<usize>>,
  edata: Vec<Vec<Option<u32>>>,        // [a][b]
}
impl Model {
  fn n(&self) -> usize { self.present.len() }
  fn reach(&self, a: usize, b: usize) -> bool {
    // path of >= 1 edges
    let mut seen = vec![false; self.n()]; let mut st = self.children[a].clone();
    while let Some(x) = st.pop() { if x == b { return true; } if !seen[x] { seen[x] = true; st.extend(self.children[x].iter()); } }
    false
  }
  fn descendants(&self, a: usize) -> Vec<usize> {
    let mut seen = vec![false; self.n()]; let mut st = self.children[a].clone(); let mut out = vec![];
    while let Some(x) = st.pop() { if !seen[x] { seen[x] = true; out.push(x); st.extend(self.children[x].iter()); } }
    out.sort(); out
  }
}

struct Fail { prop: &'static str, ob: &'static str, what: String }

fn ranks(dag: &DAG<u32, u32>, nodes: &[Node]) -> Vec<Option<u32>> {
  let all: Vec<(u32, Node)> = dag.iter_unsorted().collect();
  nodes.iter().map(|n| all.iter().find(|(_, m)| m == n).map(|(r, _)| *r)).collect()
}

fn check_state(dag: &DAG<u32, u32>, m: &Model, nodes: &[Node]) -> Result<(), Fail> { check_state_mode(dag, m, nodes, 0, 0) }

/// mode 0: every query after every operation.  mode 1 ("quiet"): only the C10 state invariants, read through accessors that do not
/// touch the graph's internal scratch space -- so whatever an operation left behind is still there for the next operation.
/// mode 2: as mode 1 plus ONE reachability query (a different pair at every step) -- what a query leaves behind meets the next operation.
fn check_state_mode(dag: &DAG<u32, u32>, m: &Model, nodes: &[Node], mode: u8, tick: usize) -> Result<(), Fail> {
  let k = nodes.len();
  let rk = ranks(dag, nodes);
  let live = m.present.iter().filter(|p| **p).count();
  macro_rules! fail { ($p:expr, $o:expr, $($t:tt)*) => { return Err(Fail { prop: $p, ob: $o, what: format!($($t)*) }) } }
  if dag.len() != live { fail!("C11", "C11.len.exact", "len {} != {}", dag.len(), live); }
  if dag.is_empty() != (live == 0) { fail!("C11", "C11.is_empty.exact", "is_empty wrong"); }
  if dag.iter_unsorted().count() != live { fail!("C10", "C10.bounded.iter_unsorted_lists_each_node_once", "iter_unsorted yields {} nodes, {} live", dag.iter_unsorted().count(), live); }
  // C10: ranks are a bijection onto 1..=n
  let mut seen = vec![false; live + 1];
  for i in 0..k {
    if m.present[i] != rk[i].is_some() { fail!("C10", "C10.bounded.iter_unsorted_lists_each_node_once", "node {} presence mismatch", i); }
    if m.present[i] != dag.contains_node(nodes[i]) { fail!("C11", "C11.contains_node.exact", "contains_node({}) wrong", i); }
    if let Some(r) = rk[i] {
      if r == 0 || r as usize > live || seen[r as usize] { fail!("C10", "C10.bounded.ranks_bijection_onto_1_n", "rank {} of node {} not in a bijection onto 1..={}", r, i, live); }
      seen[r as usize] = true;
    }
    if dag.get_node_data(nodes[i]).copied() != (if m.present[i] { Some(i as u32) } else { None }) { fail!("C11", "C11.get_node_data.is_the_data", "node data of {} wrong", i); }
  }
  // C10 first: the order invariant over the model's edges, before any query whose answer merely depends on it
  for a in 0..k { for b in 0..k {
    if m.present[a] && m.present[b] && m.edata[a][b].is_some() {
      if !(rk[a].unwrap() < rk[b].unwrap()) { fail!("C10", "C10.bounded.every_edge_increases_rank", "edge {}->{} with ranks {} !< {}", a, b, rk[a].unwrap(), rk[b].unwrap()); }
    }
  } }
  if mode == 2 && k > 0 {
    let (a, b) = ((tick * 7 + 3) % k, (tick * 5 + tick / k + 1) % k);
    let r = m.present[a] && m.present[b] && a != b && m.reach(a, b);
    if dag.contains_transitive_edge(nodes[a], nodes[b]) != r { fail!("C11", "C11.contains_transitive_edge.exact", "contains_transitive_edge({},{}) = {} expected {} (the only query after this operation)", a, b, !r, r); }
  }
  if mode != 0 { return Ok(()); }
  for a in 0..k {
    // adjacency, in insertion order, with data
    let out: Vec<(usize, u32)> = dag.get_outgoing_edges(nodes[a]).map(|(n, d)| (nodes.iter().position(|x| x == n).unwrap(), *d)).collect();
    let exp: Vec<(usize, u32)> = if m.present[a] { m.children[a].iter().map(|b| (*b, m.edata[a][*b].unwrap())).collect() } else { vec![] };
    if out != exp { fail!("C11", "C11.bounded.get_outgoing_edges_in_insertion_order_with_data", "outgoing of {}: {:?} expected {:?}", a, out, exp); }
    let out_n: Vec<usize> = dag.get_outgoing_edge_nodes(nodes[a]).map(|n| nodes.iter().position(|x| x == n).unwrap()).collect();
    if out_n != exp.iter().map(|x| x.0).collect::<Vec<_>>() { fail!("C11", "C11.bounded.get_outgoing_edge_nodes", "outgoing nodes of {} wrong", a); }
    let out_d: Vec<u32> = dag.get_outgoing_edge_data(nodes[a]).copied().collect();
    if out_d != exp.iter().map(|x| x.1).collect::<Vec<_>>() { fail!("C11", "C11.bounded.get_outgoing_edge_data", "outgoing data of {} wrong", a); }
    let out_nd: Vec<u32> = dag.get_outgoing_edge_node_data(nodes[a]).copied().collect();
    if out_nd != exp.iter().map(|x| x.0 as u32).collect::<Vec<_>>() { fail!("C11", "C11.bounded.get_outgoing_edge_node_data", "outgoing node data of {} wrong", a); }
    let inc: Vec<(usize, u32)> = dag.get_incoming_edges(nodes[a]).map(|(n, d)| (nodes.iter().position(|x| x == n).unwrap(), *d)).collect();
    let exp_in: Vec<(usize, u32)> = if m.present[a] { m.parents[a].iter().map(|p| (*p, m.edata[*p][a].unwrap())).collect() } else { vec![] };
    if inc != exp_in { fail!("C11", "C11.bounded.get_incoming_edges_in_insertion_order_with_data", "incoming of {}: {:?} expected {:?}", a, inc, exp_in); }
    let inc_n: Vec<usize> = dag.get_incoming_edge_nodes(nodes[a]).map(|n| nodes.iter().position(|x| x == n).unwrap()).collect();
    if inc_n != exp_in.iter().map(|x| x.0).collect::<Vec<_>>() { fail!("C11", "C11.bounded.get_incoming_edge_nodes", "incoming nodes of {} wrong", a); }
    let inc_d: Vec<u32> = dag.get_incoming_edge_data(nodes[a]).copied().collect();
    if inc_d != exp_in.iter().map(|x| x.1).collect::<Vec<_>>() { fail!("C11", "C11.bounded.get_incoming_edge_data", "incoming data of {} wrong", a); }
    let inc_nd: Vec<u32> = dag.get_incoming_edge_node_data(nodes[a]).copied().collect();
    if inc_nd != exp_in.iter().map(|x| x.0 as u32).collect::<Vec<_>>() { fail!("C11", "C11.bounded.get_incoming_edge_node_data", "incoming node data of {} wrong", a); }
    for b in 0..k {
      let e = m.present[a] && m.present[b] && m.edata[a][b].is_some();
      if dag.contains_edge(nodes[a], nodes[b]) != e { fail!("C11", "C11.contains_edge.exact", "contains_edge({},{}) wrong", a, b); }
      if dag.get_edge_data(nodes[a], nodes[b]).copied() != (if e { m.edata[a][b] } else { None }) { fail!("C11", "C11.get_edge_data.exact", "edge data ({},{}) wrong", a, b); }
      let r = m.present[a] && m.present[b] && a != b && m.reach(a, b);
      if dag.contains_transitive_edge(nodes[a], nodes[b]) != r { fail!("C11", "C11.contains_transitive_edge.exact", "contains_transitive_edge({},{}) = {} expected {}", a, b, !r, r); }
      if e { if !(rk[a].unwrap() < rk[b].unwrap()) { fail!("C10", "C10.bounded.every_edge_increases_rank", "edge {}->{} with ranks {} !< {}", a, b, rk[a].unwrap(), rk[b].unwrap()); } }
      if m.present[a] && m.present[b] {
        let exp = rk[a].unwrap().cmp(&rk[b].unwrap());
        if dag.topo_cmp(nodes[a], nodes[b]) != exp { fail!("C11", "C11.topo_cmp.is_rank_order", "topo_cmp({},{}) wrong", a, b); }
      }
    }
    // descendant iterators: exactly the reachable nodes, each once; sorted variant in ascending rank
    match dag.descendants_unsorted(nodes[a]) {
      Err(_) => if m.present[a] { fail!("C11", "C11.descendants_unsorted.err_iff_missing", "descendants_unsorted({}) Err", a); },
      Ok(it) => {
        if !m.present[a] { fail!("C11", "C11.descendants_unsorted.err_iff_missing", "descendants_unsorted({}) Ok on a missing node", a); }
        let got: Vec<(u32, Node)> = it.collect();
        let mut idx: Vec<usize> = got.iter().map(|(_, n)| nodes.iter().position(|x| x == n).unwrap()).collect();
        for (r, n) in &got { let i = nodes.iter().position(|x| x == n).unwrap(); if Some(*r) != rk[i] { fail!("C11", "C11.descendants_unsorted.next.is_descendant", "descendants_unsorted({}) reports rank {} for node {}", a, r, i); } }
        idx.sort();
        if idx != m.descendants(a) { fail!("C11", "C11.descendants_unsorted.next.each_once", "descendants_unsorted({}) = {:?} expected each of {:?} once", a, idx, m.descendants(a)); }
      }
    }
    match dag.descendants(nodes[a]) {
      Err(_) => if m.present[a] { fail!("C11", "C11.bounded.descendants_err_iff_missing", "descendants({}) Err", a); },
      Ok(it) => {
        if !m.present[a] { fail!("C11", "C11.bounded.descendants_err_iff_missing", "descendants({}) Ok on a missing node", a); }
        let got: Vec<usize> = it.map(|n| nodes.iter().position(|x| *x == n).unwrap()).collect();
        let mut s = got.clone(); s.sort();
        if s != m.descendants(a) { fail!("C11", "C11.descendants.next.each_once", "descendants({}) = {:?} expected each of {:?} once", a, got, m.descendants(a)); }
        for w in got.windows(2) { if !(rk[w[0]].unwrap() < rk[w[1]].unwrap()) { fail!("C11", "C11.descendants.next.ascending", "descendants({}) not in ascending rank: {:?}", a, got); } }
      }
    }
  }
  // back-to-back reachability queries in several orders: a query must not depend on what the previous one left behind
  let pairs: Vec<(usize, usize)> = (0..k).flat_map(|a| (0..k).map(move |b| (a, b))).collect();
  let np = pairs.len();
  for order in 0..4usize {
    for j in 0..np {
      let (a, b) = match order { 0 => pairs[j], 1 => pairs[np - 1 - j], 2 => pairs[(j * 7 + 3) % np], _ => { let (x, y) = pairs[(j * 5 + 1) % np]; (y, x) } };
      if order >= 2 && (np % 7 == 0 || np % 5 == 0) && j > 0 { /* strides not coprime: still a valid query sequence */ }
      let r = m.present[a] && m.present[b] && a != b && m.reach(a, b);
      if dag.contains_transitive_edge(nodes[a], nodes[b]) != r { fail!("C11", "C11.contains_transitive_edge.exact", "contains_transitive_edge({},{}) = {} expected {} (query order {}, position {})", a, b, !r, r, order, j); }
    }
  }
  Ok(())
}

fn apply(dag: &mut DAG<u32, u32>, m: &mut Model, nodes: &mut Vec<Node>, op: Op, stamp: u32) -> Result<(), Fail> {
  macro_rules! fail { ($p:expr, $o:expr, $($t:tt)*) => { return Err(Fail { prop: $p, ob: $o, what: format!($($t)*) }) } }
  match op {
    Op::AddNode => {
      let i = nodes.len();
      let n = dag.add_node(i as u32);
      if nodes.contains(&n) { fail!("C10", "C10.add_node.fresh_last_rank", "add_node returned a handle that was issued before"); }
      nodes.push(n); m.present.push(true); m.children.push(vec![]); m.parents.push(vec![]);
      for row in m.edata.iter_mut() { row.push(None); }
      m.edata.push(vec![None; i + 1]);
    }
    Op::AddEdge(a, b) => {
      let before = m.clone();
      let r = dag.add_edge(nodes[a], nodes[b], stamp);
      let exp: Result<bool, Error> = if !m.present[a] || !m.present[b] { Err(Error::NodeMissing) }
        else if a == b || m.reach(b, a) { Err(Error::CycleDetected) }
        else if m.edata[a][b].is_some() { Ok(false) } else { Ok(true) };
      if r != exp {
        let ob = match exp { Err(Error::CycleDetected) => "C10.add_edge.cycle_rejected_exactly_when_dst_reaches_src", Err(Error::NodeMissing) => "C10.add_edge.node_missing_exact", Ok(false) => "C11.add_edge.existing_edge_reported", Ok(true) => "C10.add_edge.cycle_rejected_exactly_when_dst_reaches_src" };
        fail!(if ob.starts_with("C11") { "C11" } else { "C10" }, ob, "add_edge({},{}) = {:?} expected {:?}", a, b, r, exp);
      }
      if exp == Ok(true) { m.children[a].push(b); m.parents[b].push(a); m.edata[a][b] = Some(stamp); }
      else { *m = before; }      // rejected / existing: whole view unchanged (checked by check_state against the model)
    }
    Op::RemoveEdge(a, b) => {
      let e = m.present[a] && m.present[b] && m.edata[a][b].is_some();
      let r = dag.remove_edge(nodes[a], nodes[b]);
      let exp = if e { m.edata[a][b] } else { None };
      if r != exp { fail!("C11", "C11.remove_edge.result", "remove_edge({},{}) = {:?} expected {:?}", a, b, r, exp); }
      if e { m.children[a].retain(|x| *x != b); m.parents[b].retain(|x| *x != a); m.edata[a][b] = None; }
    }
    Op::RemoveOut(a) => {
      let r = dag.remove_outgoing_edges_of_node(nodes[a]);
      let exp: Option<Vec<(usize, u32)>> = if m.present[a] && !m.children[a].is_empty() { Some(m.children[a].iter().map(|b| (*b, m.edata[a][*b].unwrap())).collect()) } else { None };
      let got = r.map(|v| v.into_iter().map(|(n, d)| (nodes.iter().position(|x| *x == n).unwrap(), d)).collect::<Vec<_>>());
      if got != exp { fail!("C11", "C11.remove_outgoing.returns_data_in_order", "remove_outgoing_edges_of_node({}) = {:?} expected {:?}", a, got, exp); }
      if m.present[a] { for b in m.children[a].clone() { m.parents[b].retain(|x| *x != a); m.edata[a][b] = None; } m.children[a].clear(); }
    }
    Op::RemoveNode(a) => {
      let r = dag.remove_node(nodes[a]);
      if r != m.present[a] { fail!("C11", "C11.remove_node.result", "remove_node({}) = {} expected {}", a, r, m.present[a]); }
      if m.present[a] {
        for b in m.children[a].clone() { m.parents[b].retain(|x| *x != a); m.edata[a][b] = None; }
        for p in m.parents[a].clone() { m.children[p].retain(|x| *x != a); m.edata[p][a] = None; }
        m.children[a].clear(); m.parents[a].clear(); m.present[a] = false;
      }
    }
    Op::New => {}
  }
  Ok(())
}

/// what a caller can observe of the LAST instance of `ops` (instances are separated by `Op::New`): the result of every operation and
/// the rank of every node after it.  No oracle: used to compare two runs of the same sequence (C16).
fn trace_last_instance(ops: &[Op]) -> Vec<String> {
  let mut dag: DAG<u32, u32> = DAG::new(); let mut nodes: Vec<Node> = vec![]; let mut out = vec![]; let mut base = 0usize;
  for (i, op) in ops.iter().enumerate() {
    if *op == Op::New { base = i + 1; }
    let r = std::panic::catch_unwind(std::panic::AssertUnwindSafe(|| {
      match *op {
        Op::New => { dag = DAG::new(); nodes.clear(); out.clear(); String::new() }
        Op::AddNode => { let n = dag.add_node(nodes.len() as u32); nodes.push(n); "node".to_string() }
        Op::AddEdge(a, b) if a < nodes.len() && b < nodes.len() => format!("{:?}", dag.add_edge(nodes[a], nodes[b], 100 + (i - base) as u32)),
        Op::RemoveEdge(a, b) if a < nodes.len() && b < nodes.len() => format!("{:?}", dag.remove_edge(nodes[a], nodes[b])),
        Op::RemoveOut(a) if a < nodes.len() => format!("{:?}", dag.remove_outgoing_edges_of_node(nodes[a]).map(|v| v.into_iter().map(|(n, d)| (nodes.iter().position(|x| *x == n), d)).collect::<Vec<_>>())),
        Op::RemoveNode(a) if a < nodes.len() => format!("{:?}", dag.remove_node(nodes[a])),
        _ => "skipped".to_string(),
      }
    }));
    match r { Ok(x) => { if *op != Op::New { out.push(format!("{} ranks {:?}", x, ranks(&dag, &nodes))); } }, Err(_) => { out.push("panic".to_string()); break; } }
  }
  out
}
/// C16 at graph level: the last instance of `ops` behaves the same on a fresh thread alone and after the earlier instances ran on
/// the same thread (no state may leak between instances)
fn det_check(ops: &[Op]) -> Result<(), Fail> {
  let last: Vec<Op> = ops.rsplit(|o| *o == Op::New).next().unwrap_or(&[]).to_vec();
  let all = ops.to_vec(); let alone = last.clone();
  let t_after = std::thread::spawn(move || trace_last_instance(&all)).join().unwrap_or_else(|_| vec!["panic".to_string()]);
  let t_alone = std::thread::spawn(move || trace_last_instance(&alone)).join().unwrap_or_else(|_| vec!["panic".to_string()]);
  if t_after != t_alone {
    let i = t_after.iter().zip(t_alone.iter()).position(|(a, b)| a != b).unwrap_or(t_after.len().min(t_alone.len()));
    return Err(Fail { prop: "C16", ob: "C16.bounded.graph_behaviour_independent_of_earlier_instances", what: format!("operation #{} of the last instance {}: alone it gives `{}`, after the earlier instances on the same thread `{}`", i, ops_json(&last), t_alone.get(i).cloned().unwrap_or_default(), t_after.get(i).cloned().unwrap_or_default()) });
  }
  Ok(())
}

/// the same operation sequence replayed `n` times, each on a fresh thread (fresh hash seeds): identical traces (ranks after every
/// operation).  For shapes in which a hash-iteration order could decide a tie (several parentless nodes in one change set)
fn det_repeat(ops: &[Op], n: usize) -> Result<(), Fail> {
  let first = { let o = ops.to_vec(); std::thread::spawn(move || trace_last_instance(&o)).join().unwrap_or_else(|_| vec!["panic".to_string()]) };
  for k in 1..n {
    let o = ops.to_vec();
    let t = std::thread::spawn(move || trace_last_instance(&o)).join().unwrap_or_else(|_| vec!["panic".to_string()]);
    if t != first {
      let i = t.iter().zip(first.iter()).position(|(a, b)| a != b).unwrap_or(t.len().min(first.len()));
      return Err(Fail { prop: "C16", ob: "C16.bounded.same_operations_same_ranks_on_every_replay", what: format!("replay {} of the same operation sequence differs at operation #{}: `{}` vs `{}`", k, i, t.get(i).cloned().unwrap_or_default(), first.get(i).cloned().unwrap_or_default()) });
    }
  }
  Ok(())
}
fn det_shapes() -> Vec<Vec<Op>> {
  use Op::*;
  vec![
    // o=0 x=1 t1=2 t2=3 t3=4: three parentless requirers of x; x then depends on the older o: the backward set is {x, t1, t2, t3}
    vec![AddNode, AddNode, AddNode, AddNode, AddNode, AddEdge(2, 1), AddEdge(3, 1), AddEdge(4, 1), AddEdge(1, 0)],
    // forward set with several childless nodes: a=0 with children c1..c3 created later, then an older-ranked source b gets an edge to a
    vec![AddNode, AddNode, AddNode, AddNode, AddNode, AddEdge(0, 2), AddEdge(0, 3), AddEdge(0, 4), AddEdge(1, 0), AddEdge(4, 1)],
  ]
}

fn panic_text(e: &Box<dyn std::any::Any + Send>) -> String {
  e.downcast_ref::<String>().cloned().or_else(|| e.downcast_ref::<&str>().map(|s| s.to_string())).unwrap_or_else(|| "(no message)".to_string())
}

fn run(ops: &[Op]) -> Result<(), (usize, Fail)> {
  let mut dag: DAG<u32, u32> = DAG::new(); let mut m = Model::default(); let mut nodes = vec![];
  for (i, op) in ops.iter().enumerate() {
    if *op == Op::New { dag = DAG::new(); m = Model::default(); nodes = vec![]; continue; }
    let valid = match *op { Op::AddNode => true, Op::AddEdge(a, b) | Op::RemoveEdge(a, b) => a < nodes.len() && b < nodes.len(), Op::RemoveOut(a) | Op::RemoveNode(a) => a < nodes.len(), Op::New => true };
    if !valid { continue; }
    // a panic of the real crate on an input where the model has an answer is a failure of that operation / query
    let r = std::panic::catch_unwind(std::panic::AssertUnwindSafe(|| apply(&mut dag, &mut m, &mut nodes, *op, 100 + i as u32)));
    match r { Ok(x) => x.map_err(|f| (i, f))?, Err(e) => return Err((i, Fail { prop: "C10", ob: "C10.bounded.operation_does_not_panic", what: format!("{:?} panicked: {}", op, panic_text(&e)) })) }
    let r = std::panic::catch_unwind(std::panic::AssertUnwindSafe(|| check_state(&dag, &m, &nodes)));
    match r { Ok(x) => x.map_err(|f| (i, f))?, Err(e) => return Err((i, Fail { prop: "C11", ob: "C11.bounded.query_does_not_panic", what: format!("a query after {:?} panicked: {}", op, panic_text(&e)) })) }
  }
  Ok(())
}

/// like `run`, but a failure of a C11 *query* oracle does not end the sequence: the operations go on (the model stays the truth) and
/// a later failure attributed to another property (an operation that panics, a wrong cycle verdict, a broken rank order) is reported
/// as well -- at most one failure per property
fn run_all(ops: &[Op]) -> Vec<(usize, Fail)> {
  let mut out = run_mode(ops, 0);
  for mode in [1u8, 2u8] {
    for (at, mut f) in run_mode(ops, mode) {
      if !out.iter().any(|(_, g)| g.prop == f.prop) {
        f.what = format!("{} [{}]", f.what, if mode == 1 { "replayed with no query between the operations" } else { "replayed with a single reachability query after each operation" });
        out.push((at, f));
      }
    }
  }
  out
}
fn run_mode(ops: &[Op], mode: u8) -> Vec<(usize, Fail)> {
  let mut out: Vec<(usize, Fail)> = vec![];
  let mut dag: DAG<u32, u32> = DAG::new(); let mut m = Model::default(); let mut nodes = vec![];
  for (i, op) in ops.iter().enumerate() {
    if *op == Op::New { dag = DAG::new(); m = Model::default(); nodes = vec![]; continue; }
    let valid = match *op { Op::AddNode => true, Op::AddEdge(a, b) | Op::RemoveEdge(a, b) => a < nodes.len() && b < nodes.len(), Op::RemoveOut(a) | Op::RemoveNode(a) => a < nodes.len(), Op::New => true };
    if !valid { continue; }
    let r = std::panic::catch_unwind(std::panic::AssertUnwindSafe(|| apply(&mut dag, &mut m, &mut nodes, *op, 100 + i as u32)));
    let f = match r { Ok(Ok(())) => None, Ok(Err(f)) => Some(f), Err(e) => Some(Fail { prop: "C10", ob: "C10.bounded.operation_does_not_panic", what: format!("{:?} panicked: {}", op, panic_text(&e)) }) };
    if let Some(f) = f { if !out.iter().any(|(_, g)| g.prop == f.prop) { out.push((i, f)); } return out; }   // after a failed operation the model and the graph may differ: stop
    let md = if i + 1 == ops.len() { 0 } else { mode };      // the last state is always examined in full
    let r = std::panic::catch_unwind(std::panic::AssertUnwindSafe(|| check_state_mode(&dag, &m, &nodes, md, i)));
    let f = match r { Ok(Ok(())) => None, Ok(Err(f)) => Some(f), Err(e) => Some(Fail { prop: "C11", ob: "C11.bounded.query_does_not_panic", what: format!("a query after {:?} panicked: {}", op, panic_text(&e)) }) };
    if let Some(f) = f {
      let is_c11 = f.prop == "C11";
      if !out.iter().any(|(_, g)| g.prop == f.prop) { out.push((i, f)); }
      if !is_c11 { return out; }
    }
  }
  out
}

/// operation sequences of shapes that random search finds late (all over five nodes 0..4 added first)
fn fixed_sequences() -> Vec<Vec<Op>> {
  use Op::*;
  let five = || vec![AddNode, AddNode, AddNode, AddNode, AddNode];
  let mut v = vec![];
  // dst=0 reaches c=2 directly (edge inserted first) and through its sibling a=1; src=4 has an ancestor p=3 inside the affected region
  let mut s = five(); s.extend([AddEdge(0, 2), AddEdge(0, 1), AddEdge(1, 2), AddEdge(3, 4), AddEdge(4, 0), AddEdge(1, 0), AddEdge(2, 4)]); v.push(s);
  // the same with the sibling edge first
  let mut s = five(); s.extend([AddEdge(0, 1), AddEdge(0, 2), AddEdge(1, 2), AddEdge(3, 4), AddEdge(4, 0), AddEdge(2, 3)]); v.push(s);
  // a node with outgoing and incoming edges is removed, then edges are added that reorder through its former neighbours
  let mut s = five(); s.extend([AddEdge(1, 2), AddEdge(2, 3), AddEdge(0, 2), RemoveNode(2), AddEdge(3, 1), AddEdge(3, 0), AddEdge(4, 3), AddEdge(1, 4)]); v.push(s);
  // the top-ranked node is removed, a node is added, and the new node takes part in a reordering insertion
  let mut s = five(); s.extend([AddEdge(0, 1), RemoveNode(4), AddNode, AddEdge(5, 0), AddEdge(3, 5), AddEdge(1, 3)]); v.push(s);
  // a rejected cycle, then the same edge again, then the reverse direction
  let mut s = five(); s.extend([AddEdge(0, 1), AddEdge(1, 2), AddEdge(2, 0), AddEdge(2, 0), AddEdge(0, 2), RemoveEdge(1, 2), AddEdge(2, 0)]); v.push(s);
  // a rejected cycle found while a sibling of the cycle-closing child is still pending in the search; then insertions that reorder
  // (whatever the rejected search left behind must not reach the next one)
  let mut s = five(); s.extend([AddEdge(0, 1), AddEdge(0, 2), AddEdge(2, 0), AddEdge(1, 4), AddEdge(4, 3)]); v.push(s);
  let mut s = five(); s.extend([AddEdge(0, 1), AddEdge(0, 2), AddEdge(2, 0), AddEdge(2, 4), AddEdge(4, 3), AddEdge(4, 2)]); v.push(s);
  v
}

fn ops_json(ops: &[Op]) -> String {
  let v: Vec<String> = ops.iter().map(|o| match o { Op::AddNode => "\"N\"".to_string(), Op::AddEdge(a, b) => format!("\"E{},{}\"", a, b), Op::RemoveEdge(a, b) => format!("\"e{},{}\"", a, b), Op::RemoveOut(a) => format!("\"o{}\"", a), Op::RemoveNode(a) => format!("\"n{}\"", a), Op::New => "\"X\"".to_string() }).collect();
  format!("[{}]", v.join(","))
}
fn parse_ops(s: &str) -> Vec<Op> {
  s.trim().trim_start_matches('[').trim_end_matches(']').split("\",\"").map(|t| t.trim_matches('"')).filter(|t| !t.is_empty()).map(|t| {
    let (h, rest) = t.split_at(1);
    let nums: Vec<usize> = rest.split(',').filter(|x| !x.is_empty()).map(|x| x.parse().unwrap()).collect();
    match h { "N" => Op::AddNode, "E" => Op::AddEdge(nums[0], nums[1]), "e" => Op::RemoveEdge(nums[0], nums[1]), "o" => Op::RemoveOut(nums[0]), "n" => Op::RemoveNode(nums[0]), "X" => Op::New, _ => panic!("bad op {}", t) }
  }).collect()
}

fn report(ops: &[Op], at: usize, f: &Fail) {
  println!("{{\"violation\":true,\"property\":\"{}\",\"obligation\":\"{}\",\"ops\":{},\"failed_at_op\":{},\"what\":{:?}}}", f.prop, f.ob, ops_json(&ops[..=at]), at, f.what);
}

fn all_ops(k: usize) -> Vec<Op> {
  let mut v = vec![];
  for a in 0..k { for b in 0..k { v.push(Op::AddEdge(a, b)); } }
  for a in 0..k { for b in 0..k { v.push(Op::RemoveEdge(a, b)); } }
  for a in 0..k { v.push(Op::RemoveOut(a)); v.push(Op::RemoveNode(a)); }
  v
}

struct Rng(u64);
impl Rng { fn next(&mut self) -> u64 { self.0 ^= self.0 << 13; self.0 ^= self.0 >> 7; self.0 ^= self.0 << 17; self.0 } fn below(&mut self, n: usize) -> usize { (self.next() % n as u64) as usize } }

fn main() {
  let args: Vec<String> = std::env::args().collect();
  if args.len() >= 2 && (args[1] == "pie" || args[1] == "pie-case") { pie_main(&args); return; }
  if args.len() >= 2 && (args[1] == "fs" || args[1] == "fs-case") { fs_main(&args); return; }
  if args.len() >= 2 && (args[1] == "map" || args[1] == "map-case") { map_main(&args); return; }
  if args.len() >= 3 && args[1] == "replay" {
    let ops = parse_ops(&args[2]);
    std::panic::set_hook(Box::new(|_| {}));
    if ops.contains(&Op::New) { if let Err(f) = det_check(&ops) { report(&ops, ops.len() - 1, &f); std::process::exit(1); } }
    else if let Err(f) = det_repeat(&ops, 24) { report(&ops, ops.len() - 1, &f); std::process::exit(1); }
    let fs = run_all(&ops); if fs.is_empty() { println!("{{\"violation\":false,\"ops\":{}}}", ops_json(&ops)); } else { for (at, f) in &fs { report(&ops, *at, f); } std::process::exit(1); }
    return;
  }
  let get = |name: &str, d: usize| -> usize { args.iter().position(|a| a == name).map(|i| args[i + 1].parse().unwrap()).unwrap_or(d) };
  let (k, l, random, len, seed) = (get("--k", 3), get("--l", 4), get("--random", 0), get("--len", 12), get("--seed", 1));
  let mut found = 0usize; let mut runs = 0u64; let mut nontrivial = 0u64;
  let quiet = std::panic::take_hook(); std::panic::set_hook(Box::new(|_| {}));
  for ops in det_shapes() { runs += 1; nontrivial += 1; if let Err(f) = det_repeat(&ops, 24) { report(&ops, ops.len() - 1, &f); found += 1; } }
  for ops in fixed_sequences() { runs += 1; nontrivial += 1; let fs = run_all(&ops); if !fs.is_empty() { for (at, f) in &fs { report(&ops, *at, f); } found += 1; } }
  // exhaustive: K add_node first, then every sequence of <= L edge/removal operations
  let alphabet = all_ops(k);
  let mut idx = vec![0usize; l];
  let prefix: Vec<Op> = (0..k).map(|_| Op::AddNode).collect();
  'outer: loop {
    let mut ops = prefix.clone(); ops.extend(idx.iter().map(|i| alphabet[*i]));
    runs += 1;
    if idx.iter().any(|i| matches!(alphabet[*i], Op::AddEdge(a, b) if a != b)) { nontrivial += 1; }
    let fs = run_all(&ops); if !fs.is_empty() { for (at, f) in &fs { report(&ops, *at, f); } found += 1; if found >= 5 { break 'outer; } }
    let mut p = l;
    loop { if p == 0 { break 'outer; } p -= 1; idx[p] += 1; if idx[p] < alphabet.len() { break; } idx[p] = 0; }
  }
  // random: longer sequences with interleaved add_node
  let mut rng = Rng(0x9E3779B97F4A7C15 ^ (seed as u64).wrapping_mul(0xD1342543DE82EF95) | 1);
  let mut earlier: Vec<Op> = vec![];
  let mut det_found = 0usize;
  for _ in 0..random {
    if found >= 5 && det_found >= 1 { break; }
    let mut ops = vec![]; let mut n = 0usize;
    for _ in 0..len {
      let c = rng.below(10);
      if n < 2 || (c == 0 && n < 6) { ops.push(Op::AddNode); n += 1; }
      else if c <= 6 { ops.push(Op::AddEdge(rng.below(n), rng.below(n))); }
      else if c == 7 { ops.push(Op::RemoveEdge(rng.below(n), rng.below(n))); }
      else if c == 8 { ops.push(Op::RemoveOut(rng.below(n))); }
      else { ops.push(Op::RemoveNode(rng.below(n))); }
    }
    runs += 1; nontrivial += 1;
    if found < 5 { let fs = run_all(&ops); if !fs.is_empty() { for (at, f) in &fs { report(&ops, *at, f); } found += 1; } }
    // C16: this sequence alone vs. after the two previous random sequences on one thread
    let mut both = earlier.clone(); both.push(Op::New); both.extend(ops.iter().cloned());
    if !earlier.is_empty() && det_found < 2 { if let Err(f) = det_check(&both) { report(&both, both.len() - 1, &f); found += 1; det_found += 1; } }
    let cut = earlier.iter().rposition(|o| *o == Op::New).map(|p| p + 1).unwrap_or(0);
    earlier = earlier[cut..].to_vec(); if !earlier.is_empty() { earlier.push(Op::New); } earlier.extend(ops.iter().cloned());
  }
  std::panic::set_hook(quiet);
  println!("{{\"summary\":true,\"k\":{},\"l\":{},\"random\":{},\"random_len\":{},\"seed\":{},\"sequences\":{},\"nontrivial\":{},\"violations\":{},\"exhaustive_part_complete\":{}}}", k, l, random, len, seed, runs, nontrivial, found, found < 5);
  if found > 0 { std::process::exit(1); }
}

/// pie-level exploration: `pie --programs N --hist L --seed S` runs the injected-violation cases and N random
/// (program, history) cases; `pie-case --seed S --index I --hist L` re-runs one of them (index of the random case) and
/// `pie-case --violation NAME` one injected-violation case.
fn pie_main(args: &[String]) {
  use piemodel::*;
  // harness self-checks (messages starting with `harness:`) stay visible; the panics of the code under test are caught and reported
  std::panic::set_hook(Box::new(|i| { let m = i.payload().downcast_ref::<String>().cloned().unwrap_or_default(); if m.starts_with("harness:") { eprintln!("{}", m); } }));
  let get = |name: &str, d: usize| -> usize { args.iter().position(|a| a == name).map(|i| args[i + 1].parse().unwrap()).unwrap_or(d) };
  let gets = |name: &str| -> Option<String> { args.iter().position(|a| a == name).map(|i| args[i + 1].clone()) };
  let (programs, hist, seed) = (get("--programs", 500), get("--hist", 8), get("--seed", 1));
  let only_index = if args[1] == "pie-case" { Some(get("--index", usize::MAX)) } else { None };
  let only_violation = gets("--violation");
  let mut found = 0usize; let mut ran = 0u64;
  let emit = |f: &Fail, how: String, detail: String| {
    println!("{{\"violation\":true,\"engine\":\"pie\",\"property\":\"{}\",\"obligation\":\"{}\",\"rerun\":{:?},\"what\":{:?},\"case\":{:?}}}", f.prop, f.ob, how, f.what, detail);
  };
  if only_index.is_none() || only_violation.is_some() {
    for (prop, ob, prog, h, expect) in violation_cases() {
      if let Some(v) = &only_violation { if v != ob { continue; } }
      ran += 1;
      if let Err(f) = run_violation(&prog, &h, expect, prop, ob) { emit(&f, format!("pie-case --violation {}", ob), format!("program {:?} history {:?}", prog, h)); found += 1; }
    }
  }
  if only_index.is_none() || args.iter().any(|a| a == "--fixed") {
    for (k, (name, prog, h)) in fixed_cases().into_iter().enumerate() {
      ran += 1;
      if let Err(f) = run_case_attributed(&prog, &h) { emit(&f, format!("pie-case --fixed --index 4000000000 # case {} ({})", k, name), format!("program {:?} history {:?}", prog, h)); found += 1; }
    }
  }
  if only_index.is_none() || gets("--recovery").is_some() {
    let mut recovered = 0usize;
    for (k, (name, prog, h)) in recovery_cases().into_iter().enumerate() {
      if let Some(v) = gets("--recovery") { if v != k.to_string() { continue; } }
      if only_violation.is_some() { continue; }
      ran += 1;
      match run_recovery(&prog, &h) { Ok(n) => recovered += n, Err(f) => { emit(&f, format!("pie-case --recovery {} --index 4000000000", k), format!("{}: program {:?} history {:?}", name, prog, h)); found += 1; recovered += 1; if found >= 3 { break; } } }
    }
    if gets("--recovery").is_none() && only_violation.is_none() && recovered < 200 { panic!("harness: only {} builds after an abort had to succeed", recovered); }
  }
  if only_index.is_none() || args.iter().any(|a| a == "--session-errors") {
    ran += 1;
    if let Err(f) = session_errors_accumulate() { emit(&f, "pie-case --session-errors --index 4000000000".to_string(), "one session, several builds, a failing checker in the first".to_string()); found += 1; }
  }
  if only_index.is_none() || args.iter().any(|a| a == "--stampless") {
    ran += 1;
    if let Err(f) = stampless_checkers() { emit(&f, "pie-case --stampless --index 4000000000".to_string(), "checkers with a zero-sized stamp that decide on the current state alone".to_string()); found += 1; }
  }
  if only_index.is_none() || args.iter().any(|a| a == "--read-stamp") {
    ran += 1;
    if let Err(f) = read_stamp_is_taken_from_the_reader() { emit(&f, "pie-case --read-stamp --index 4000000000".to_string(), "a resource whose first read stores a default value".to_string()); found += 1; }
  }
  if only_index.is_none() || args.iter().any(|a| a == "--both-roles") {
    ran += 1;
    if let Err(f) = task_and_resource_with_equal_keys() { emit(&f, "pie-case --both-roles --index 4000000000".to_string(), "one type used as a task and as a resource key with equal values".to_string()); found += 1; }
  }
  if only_index.is_none() || args.iter().any(|a| a == "--twin-resources") {
    ran += 1;
    if let Err(f) = twin_resources() { emit(&f, "pie-case --twin-resources --index 4000000000".to_string(), "two resource types with identical fields, hash and debug text".to_string()); found += 1; }
  }
  if only_index.is_none() || gets("--determinism").is_some() {
    for n in [3usize, 4, 5, 6, 7, 8, 20] {   // 20: more readers of one resource than any small-collection threshold
      if let Some(v) = gets("--determinism") { if v != n.to_string() { continue; } }
      if only_violation.is_some() { continue; }
      let (prog, h) = determinism_case(n); ran += 1;
      if let Err(f) = run_determinism(&prog, &h, 6) { emit(&f, format!("pie-case --determinism {}", n), format!("program {:?} history {:?}", prog, h)); found += 1; break; }
    }
  }
  if only_violation.is_none() && gets("--determinism").is_none() && gets("--recovery").is_none() {
    let range = match only_index { Some(ix) => ix..ix + 1, None => 0..programs };
    for i in range {
      let mut rng = Rng((0x9E3779B97F4A7C15u64 ^ (seed as u64).wrapping_mul(0xD1342543DE82EF95) ^ (i as u64).wrapping_mul(0xA24BAED4963EE407)) | 1);
      for _ in 0..4 { rng.next(); }
      // every third case: a larger program under a history of bottom-up builds
      let (prog, h) = if i % 3 == 2 { let n = 5 + rng.below(5); (gen_program_n(&mut rng, n).0, gen_bottom_up_history(&mut rng, 2 + hist / 4)) } else { (gen_program(&mut rng).0, gen_history(&mut rng, hist)) };
      ran += 1;
      if i % 25 == 0 { if let Err(f) = run_determinism(&prog, &h.iter().filter(|a| !matches!(a, Act::PanicIn(..) | Act::TopDownFlaky(..) | Act::BottomUpFlaky)).cloned().collect::<Vec<_>>(), 2) { if f.prop == "C16" { emit(&f, format!("pie-case --seed {} --index {} --hist {}", seed, i, hist), format!("program {:?} history {:?}", prog, h)); found += 1; } } }
      if let Err(f) = run_case_attributed(&prog, &h) { emit(&f, format!("pie-case --seed {} --index {} --hist {}", seed, i, hist), format!("program {:?} history {:?}", prog, h)); found += 1; if found >= 5 { break; } }
    }
  }
  println!("{{\"summary\":true,\"engine\":\"pie\",\"programs\":{},\"history_len\":{},\"seed\":{},\"cases\":{},\"violations\":{}}}", programs, hist, seed, ran, found);
  if found > 0 { std::process::exit(1); }
}

/// C13 bounded stand-in: `fs` runs every case of fsmodel (ordered pairs of path states x three checkers, writer route);
/// `fs-case --index I` re-runs one.
fn fs_main(args: &[String]) {
  let get = |name: &str, d: usize| -> usize { args.iter().position(|a| a == name).map(|i| args[i + 1].parse().unwrap()).unwrap_or(d) };
  let only = if args[1] == "fs-case" { Some(get("--index", 0)) } else { None };
  let dir = fsmodel::scratch();
  let n = fsmodel::cases(); let mut found = 0usize; let mut ran = 0usize;
  let range = match only { Some(i) => i..i + 1, None => 0..n };
  for i in range {
    if i >= n { continue; }
    ran += 1;
    if let Err(f) = fsmodel::run_index(&dir, i) {
      println!("{{\"violation\":true,\"engine\":\"fs\",\"property\":\"{}\",\"obligation\":\"{}\",\"rerun\":{:?},\"what\":{:?},\"case\":\"\"}}", f.prop, f.ob, format!("fs-case --index {}", i), f.what);
      found += 1; if found >= 5 { break; }
    }
  }
  if only.is_none() || args.iter().any(|a| a == "--builds") {
    std::panic::set_hook(Box::new(|_| {}));
    ran += 1;
    if let Err(f) = fsmodel::file_builds(&dir) { println!("{{\"violation\":true,\"engine\":\"fs\",\"property\":\"{}\",\"obligation\":\"{}\",\"rerun\":\"fs-case --builds --index 100000\",\"what\":{:?},\"case\":\"\"}}", f.prop, f.ob, f.what); found += 1; }
  }
  fsmodel::cleanup(&dir);
  println!("{{\"summary\":true,\"engine\":\"fs\",\"path_states\":{},\"cases\":{},\"violations\":{}}}", fsmodel::states().len(), ran, found);
  if found > 0 { std::process::exit(1); }
}

/// C14 bounded stand-in: `map --cases N --len L --seed S` runs N random operation sequences; `map-case --seed S --index I --len L` re-runs one.
fn map_main(args: &[String]) {
  let get = |name: &str, d: usize| -> usize { args.iter().position(|a| a == name).map(|i| args[i + 1].parse().unwrap()).unwrap_or(d) };
  let (cases, len, seed) = (get("--cases", 20000), get("--len", 14), get("--seed", 1));
  let only = if args[1] == "map-case" { Some(get("--index", 0)) } else { None };
  let range = match only { Some(i) => i..i + 1, None => 0..cases };
  let mut found = 0usize; let mut ran = 0usize;
  std::panic::set_hook(Box::new(|_| {}));   // panics of the code under test are caught and reported as violations
  if only.is_none() || args.iter().any(|a| a == "--twins") {
    ran += 1;
    let r = match std::panic::catch_unwind(std::panic::AssertUnwindSafe(mapmodel::twins)) { Ok(r) => r, Err(e) => Err(mapmodel::Fail { prop: "C14", ob: "C14.bounded.operation_does_not_panic", what: format!("the twin-types scenario panicked: {}", panic_text(&e)) }) };
    if let Err(f) = r { println!("{{\"violation\":true,\"engine\":\"map\",\"property\":\"{}\",\"obligation\":\"{}\",\"rerun\":\"map-case --twins --index 0 --len 0\",\"what\":{:?},\"case\":\"two block-local key types named K\"}}", f.prop, f.ob, f.what); found += 1; }
  }
  for i in range {
    let mut rng = mapmodel::Rng((0x9E3779B97F4A7C15u64 ^ (seed as u64).wrapping_mul(0xD1342543DE82EF95) ^ (i as u64).wrapping_mul(0xA24BAED4963EE407)) | 1);
    let ops = mapmodel::gen(&mut rng, len); ran += 1;
    // a panic of the real crate on an operation sequence of the public API is a failure of that sequence
    let r = match std::panic::catch_unwind(std::panic::AssertUnwindSafe(|| mapmodel::run(&ops))) {
      Ok(r) => r,
      Err(e) => Err((ops.len() - 1, mapmodel::Fail { prop: "C14", ob: "C14.bounded.operation_does_not_panic", what: format!("the sequence panicked: {}", panic_text(&e)) })),
    };
    if let Err((at, f)) = r {
      println!("{{\"violation\":true,\"engine\":\"map\",\"property\":\"{}\",\"obligation\":\"{}\",\"rerun\":{:?},\"what\":{:?},\"case\":{:?}}}", f.prop, f.ob, format!("map-case --seed {} --index {} --len {}", seed, i, len), f.what, format!("{:?}", &ops[..=at]));
      found += 1; if found >= 5 { break; }
    }
  }
  println!("{{\"summary\":true,\"engine\":\"map\",\"cases\":{},\"sequence_len\":{},\"seed\":{},\"violations\":{}}}", ran, len, seed, found);
  if found > 0 { std::process::exit(1); }
}
