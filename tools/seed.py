#!/usr/bin/env python3
"""tools/seed.py <seed-id> <property> <worktree> <demo-file-relative-to-worktree> [--props C10,C11]
Confirms a seeded change in its scratch worktree (compiles, existing tests pass, demo fails with / passes without the change),
stores it under /verif/seeded/<seed-id>/, applies it to /repo, runs the listed checks and undoes it."""
import sys, os, subprocess, json, shutil, time
sid, prop, wt, demo = sys.argv[1:5]
props = [prop]
if '--props' in sys.argv: props = sys.argv[sys.argv.index('--props') + 1].split(',')
out = os.path.join('/verif/seeded', sid); os.makedirs(out, exist_ok=True)
env = dict(os.environ, CARGO_TARGET_DIR=os.path.join(wt, 'target'), CARGO_NET_OFFLINE='true')
def run(cmd, cwd=wt, timeout=3000):
    p = subprocess.run(cmd, cwd=cwd, env=env, shell=True, capture_output=True, text=True, timeout=timeout)
    return p.returncode, (p.stdout + p.stderr)
ran = []
rc, diff = run('git diff -- graph/src pie/src'); assert diff.strip(), 'no library change in worktree'
open(os.path.join(out, 'patch.diff'), 'w').write(diff)
shutil.copy(os.path.join(wt, demo), os.path.join(out, os.path.basename(demo)))
crate = demo.split('/')[0]; pkg = {'graph': 'pie_graph', 'pie': 'pie'}[crate]; tname = os.path.basename(demo)[:-3]
# 1. demo fails with the change
rc1, o1 = run('cargo test -p %s --test %s --offline' % (pkg, tname)); ran.append(('demo with change', rc1))
# 2. existing suite passes with the change (demo moved aside)
os.rename(os.path.join(wt, demo), '/tmp/_demo_%s.rs' % sid)
rc2, o2 = run('cargo test --workspace --offline'); ran.append(('existing suite with change', rc2))
os.rename('/tmp/_demo_%s.rs' % sid, os.path.join(wt, demo))
# 3. demo passes without the change
# (no `git stash`: the stash is shared by all worktrees of a repository)
run('git checkout -- graph/src pie/src')
rc3, o3 = run('cargo test -p %s --test %s --offline' % (pkg, tname)); ran.append(('demo without change', rc3))
rc4, o4 = run('git apply %s' % os.path.join(out, 'patch.diff')); assert rc4 == 0, o4
confirmed = (rc1 != 0 and rc2 == 0 and rc3 == 0)
print('confirm:', ran, 'CONFIRMED' if confirmed else 'NOT CONFIRMED')
if not confirmed:
    print(o1[-1500:], o2[-1500:], o3[-1500:])
# 4. run the checks against it
results = {}
if confirmed:
    rc, o = run('git -C /repo apply %s' % os.path.join(out, 'patch.diff'), cwd='/verif')
    assert rc == 0, o
    try:
        for p in props:
            t0 = time.time()
            pr = subprocess.run(['./check', p, '--tier', 'quick'], cwd='/verif', capture_output=True, text=True)
            results[p] = {'exit': pr.returncode, 'violation_lines': [l for l in pr.stdout.split('\n') if l.startswith('VIOLATION')][:6],
                          'stderr_tail': pr.stderr.strip().split('\n')[-3:], 'wall_s': round(time.time() - t0, 1)}
            print(p, results[p]['exit'], results[p]['violation_lines'][:2], results[p]['stderr_tail'][-1:])
    finally:
        subprocess.run('git -C /repo checkout -- .', shell=True)
meta = {'seed': sid, 'breaks_property': prop, 'confirmed': confirmed, 'what_i_ran': [{'step': s, 'exit': r} for s, r in ran],
        'demo': os.path.basename(demo), 'checks_run_against_it': results}
mp = os.path.join(out, 'meta.json')
if os.path.exists(mp):
    old = json.load(open(mp)); meta = {**old, **meta}
json.dump(meta, open(mp, 'w'), indent=1)
