#!/usr/bin/env python3
"""tools/reseed.py <seed-id> [--props C10,C11]
Re-runs the checks against a change already stored under /verif/seeded/<seed-id>/ : applies patch.diff to /repo, runs the
quick checks of the listed properties (default: the property the seed breaks), undoes the change, updates meta.json."""
import sys, os, subprocess, json, time
sid = sys.argv[1]
out = os.path.join('/verif/seeded', sid)
meta = json.load(open(os.path.join(out, 'meta.json')))
props = [meta['breaks_property']]
if '--props' in sys.argv: props = sys.argv[sys.argv.index('--props') + 1].split(',')
assert subprocess.run('git -C /repo status --porcelain', shell=True, capture_output=True, text=True).stdout.strip() == '', '/repo is not clean'
pr = subprocess.run('git -C /repo apply %s' % os.path.join(out, 'patch.diff'), shell=True, capture_output=True, text=True)
assert pr.returncode == 0, pr.stderr
results = meta.get('checks_run_against_it', {})
try:
    for p in props:
        t0 = time.time()
        pr = subprocess.run(['./check', p, '--tier', 'quick'], cwd='/verif', capture_output=True, text=True)
        results[p] = {'exit': pr.returncode, 'violation_lines': [l for l in pr.stdout.split('\n') if l.startswith('VIOLATION')][:6],
                      'stderr_tail': pr.stderr.strip().split('\n')[-3:], 'wall_s': round(time.time() - t0, 1)}
        print(sid, p, results[p]['exit'], results[p]['violation_lines'][:2], results[p]['stderr_tail'][-1:])
finally:
    subprocess.run('git -C /repo checkout -- .', shell=True)
meta['checks_run_against_it'] = results
json.dump(meta, open(os.path.join(out, 'meta.json'), 'w'), indent=1)
