#!/usr/bin/env python3
"""tools/hot.py [unit ...]: resource use of every Verus query of the given units (default: all) on the current tree, as a share of
the unit's rlimit.  Queries above ~25% are the ones that turn into spurious `undecided` results on edited code; see DESIGN §6."""
import sys, os, json, subprocess, re
HERE = os.path.dirname(os.path.dirname(os.path.abspath(__file__)))
sys.path.insert(0, HERE)
from vlib import weave
repo = os.environ.get('VERIF_REPO', '/repo')
units = sys.argv[1:] or ['graph', 'store', 'ctx', 'bu', 'queue', 'checkers', 'tracking', 'dep', 'fs', 'map']
for u in units:
    gen = '/tmp/hot/%s/%s.rs' % (u, u)
    os.makedirs(os.path.dirname(gen), exist_ok=True)
    meta = weave.generate(repo, os.path.join(HERE, 'contracts', u + '.vc'), gen)
    args = meta['verus_args']
    m = re.search(r'--rlimit\s+(\d+)', ' '.join(args) if isinstance(args, list) else args)
    rl = int(m.group(1)) if m else 10
    cmd = ['verus', os.path.basename(gen), '--edition=%s' % meta['edition'], '--triggers-mode', 'silent', '--output-json', '--time-expanded'] + (args if isinstance(args, list) else args.split())
    p = subprocess.run(cmd, cwd=os.path.dirname(gen), capture_output=True, text=True)
    try: d = json.loads(p.stdout)
    except Exception: print(u, 'no json', p.stderr[-300:]); continue
    fs = [f for mo in d['times-ms']['smt']['smt-run-module-times'] for f in mo['function-breakdown']]
    fs.sort(key=lambda f: -(f.get('rlimit') or 0))
    print('%s: rlimit %d, %s' % (u, rl, d['verification-results']))
    for f in fs[:6]:
        print('   %-60s %7d ms  %5.1f%% of the limit' % ('::'.join(f['function'].split('::')[-2:]), f['time-micros'] // 1000, 100.0 * (f.get('rlimit') or 0) / (rl * 1e6)))
