#!/usr/bin/env python3
"""tools/tryunit.py <contracts_dir> <unit> [repo]: weave one unit from a (scratch) contracts directory and run Verus once.
Prints the classification; nothing is written outside /tmp.  For trying contract changes before they go into contracts/."""
import sys, os, json
HERE = os.path.dirname(os.path.dirname(os.path.abspath(__file__)))
sys.path.insert(0, HERE)
from vlib import weave, verus as V
cdir, unit = sys.argv[1], sys.argv[2]
repo = sys.argv[3] if len(sys.argv) > 3 else os.environ.get('VERIF_REPO', '/repo')
gen = '/tmp/tryunit/%s/%s.rs' % (unit, unit)
os.makedirs(os.path.dirname(gen), exist_ok=True)
meta = weave.generate(repo, os.path.join(cdir, unit + '.vc'), gen)
text = open(gen).read()
res = V.run_verus(gen, meta['edition'], meta['verus_args'], None, 1)
cls = V.classify(meta, res, text)
vr = (res.get('json') or {}).get('verification-results', {})
print('verified', vr.get('verified'), 'errors', vr.get('errors'), 'wall', res.get('wall_s'))
for k in ('failed_tags', 'untagged', 'infra', 'resource', 'compile_errors'):
    if cls.get(k): print(k, json.dumps(cls[k], indent=1)[:3000])
print('not in sync:', [it['item'] for it in meta['items'] if not it.get('in_sync', True)][:10], 'changed:', [it['item'] for it in meta['items'] if it.get('changed')][:10])
