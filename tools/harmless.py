#!/usr/bin/env python3
"""tools/harmless.py [--jobs N]: false-alarm regression.  Applies every /verif/harmless/*.diff (a property-preserving edit) to its own
scratch worktree of /repo and runs the listed quick checks there (as tools/matrix.py does for the seeded property-breaking changes).
A check that answers exit 1 on one of these edits is a false alarm."""
import sys, os, subprocess, json, time, shutil, re
from concurrent.futures import ThreadPoolExecutor
VERIF = '/verif'; REPO = '/repo'; SCR = '/tmp/verif-harmless'
PROPS = {'H1': ['C10', 'C07'], 'H2': ['C02', 'C18'], 'H3': ['C06', 'C05'], 'H4': ['C08', 'C19'], 'H5': ['C13'], 'H6': ['C13'], 'H7': ['C04', 'C16'], 'H8': ['C14'], 'H9': ['C14'], 'H10': ['C08'], 'H11': ['C04'], 'H12': ['C10', 'C11']}
def sh(cmd, **kw): return subprocess.run(cmd, shell=True, capture_output=True, text=True, **kw)
def run(name):
    hid = name.split('-')[0]; base = os.path.join(SCR, hid); shutil.rmtree(base, ignore_errors=True); os.makedirs(base)
    repo = os.path.join(base, 'repo'); verif = os.path.join(base, 'verif'); out = []
    try:
        assert sh('git -C %s worktree add --detach %s HEAD' % (REPO, repo)).returncode == 0
        r = sh('git -C %s apply %s' % (repo, os.path.join(VERIF, 'harmless', name))); assert r.returncode == 0, r.stderr
        sh("rsync -a --exclude .git --exclude .build --exclude build --exclude replays --exclude seeded --exclude notes %s/ %s/" % (VERIF, verif))
        for f in ('kani/Cargo.toml', 'replay/Cargo.toml'):
            p = os.path.join(verif, f); t = open(p).read().replace('"/repo/', '"%s/' % repo); open(p, 'w').write(t)
        for p in PROPS[hid]:
            pr = subprocess.run(['./check', p, '--tier', 'quick'], cwd=verif, capture_output=True, text=True, env=dict(os.environ, VERIF_REPO=repo))
            tail = [re.sub(re.escape(base), '', l)[:300] for l in pr.stderr.strip().split('\n') if l.startswith('UNDECIDED')][:3] + [re.sub(re.escape(base), '', l)[:220] for l in pr.stderr.strip().split('\n')[-1:]]
            out.append((name, p, pr.returncode, [l for l in pr.stdout.split('\n') if l.startswith('VIOLATION')][:3], tail))
            print(name, p, 'exit', pr.returncode, ' || '.join(tail)[:500], flush=True)
    finally:
        sh('git -C %s worktree remove --force %s' % (REPO, repo)); shutil.rmtree(base, ignore_errors=True); sh('git -C %s worktree prune' % REPO)
    return out
names = sorted(f for f in os.listdir(os.path.join(VERIF, 'harmless')) if f.endswith('.diff'))
if '--only' in sys.argv: names = [n for n in names if n.split('-')[0] in sys.argv[sys.argv.index('--only') + 1].split(',')]
jobs = int(sys.argv[sys.argv.index('--jobs') + 1]) if '--jobs' in sys.argv else 3
os.makedirs(SCR, exist_ok=True)
with ThreadPoolExecutor(max_workers=jobs) as ex: res = [x for r in ex.map(run, names) for x in r]
with open(os.path.join(VERIF, 'harmless', 'RESULTS.md'), 'w') as f:
    f.write('| edit | check | exit | note |\n|---|---|---|---|\n')
    for name, p, rc, vio, tail in res:
        f.write('| `%s` | %s | %d%s | %s |\n' % (name[:-5], p, rc, ' **FALSE ALARM**' if rc == 1 else '', (vio[0][:160] if vio else ' / '.join(t for t in tail if t.startswith('UNDECIDED'))[:200])))
print(open(os.path.join(VERIF, 'harmless', 'RESULTS.md')).read())
sys.exit(1 if any(rc == 1 for _, _, rc, _, _ in res) else 0)
