#!/usr/bin/env python3
"""tools/units_from_tags.py: sets props.json `verus_units` of every claimed property to the units whose contracts carry an
obligation tag of that property (a unit is verified for a property exactly when it discharges a named obligation of it)."""
import json, re, os, glob
here = os.path.dirname(os.path.dirname(os.path.abspath(__file__)))
P = json.load(open(os.path.join(here, 'contracts', 'props.json')))
order = ['graph', 'store', 'tracking', 'dep', 'ctx', 'bu', 'queue', 'checkers', 'fs', 'map']
tags = {}
for vc in glob.glob(os.path.join(here, 'contracts', '*.vc')):
    u = os.path.basename(vc)[:-3]
    for m in re.finditer(r'@ob:([^\n]*)', open(vc).read()):
        for t in m.group(1).split():
            if re.match(r'^C\d\d\.', t): tags.setdefault(t[:3], set()).add(u)
for pid, rec in P.items():
    us = [u for u in order if u in tags.get(pid, ())]
    if us != rec.get('verus_units'): print(pid, rec.get('verus_units'), '->', us)
    rec['verus_units'] = us
json.dump(P, open(os.path.join(here, 'contracts', 'props.json'), 'w'), indent=1)
