#!/bin/sh
# runs every claimed quick check on the current tree (evidence is rewritten), prints one line per property
cd /verif
for p in $(python3 -c "import json;print(' '.join(c['property_id'] for c in json.load(open('MANIFEST.json'))['checks']))"); do
  s=$(date +%s); ./check $p >/tmp/refresh_$p.out 2>/tmp/refresh_$p.err; rc=$?; e=$(date +%s)
  echo "$p exit=$rc $((e-s))s $(tail -1 /tmp/refresh_$p.err)"
done
