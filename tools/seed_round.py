#!/usr/bin/env python3
"""tools/seed_round.py <round> <Cxx,Cyy,...> [n]: prepares one scratch git worktree of /repo per property under /tmp/seedagents/<Cxx>-r<round>
and the prompt file /tmp/seedagents/<Cxx>.prompt for an independent sub-agent (property text + worktree path only, nothing of /verif).
The agents themselves are started by hand; their output is taken in with tools/ingest.py and the worktrees removed afterwards."""
import sys, os, json, subprocess
HERE = os.path.dirname(os.path.dirname(os.path.abspath(__file__)))
rnd, props = sys.argv[1], sys.argv[2].split(','); n = sys.argv[3] if len(sys.argv) > 3 else '2'
os.makedirs('/tmp/seedagents', exist_ok=True)
tmpl = open(os.path.join(HERE, 'tools', 'seed_prompt.tmpl')).read()
P = {json.loads(l)['id']: json.loads(l) for l in open(os.path.join(HERE, 'properties.jsonl'))}
for pid in props:
    p = P[pid]; d = '/tmp/seedagents/%s-r%s' % (pid, rnd)
    subprocess.run(['git', '-C', '/repo', 'worktree', 'add', '--detach', d, 'HEAD'], capture_output=True)
    text = "PROPERTY %s — %s\n\nStatement: %s\n\nQuantifier: %s\n\nCode the property is anchored in: %s\n" % (pid, p['title'], p['statement'], p['quantifier']['text'], ', '.join(p['anchors']['files']))
    open('/tmp/seedagents/%s.prompt' % pid, 'w').write(tmpl.replace('__DIR__', d).replace('__PROP__', text).replace('__N__', n))
    print(pid, d, os.path.isdir(d))
