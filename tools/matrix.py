#!/usr/bin/env python3
"""tools/matrix.py [--jobs N] [--only seed-id,...] [--props-all]
Runs the quick checks against every seeded change under /verif/seeded/, each on its own scratch copy of /repo (a detached
git worktree with the patch applied) and its own scratch copy of /verif's working tree (so /repo itself is never touched and
runs do not share build directories).  Updates seeded/<id>/meta.json (`checks_run_against_it`) and writes seeded/MATRIX.md.
Scratch copies live under /tmp/verif-matrix/ and are removed as soon as a seed is done."""
import sys, os, subprocess, json, time, shutil, re
from concurrent.futures import ThreadPoolExecutor
VERIF = '/verif'; REPO = '/repo'; SCR = '/tmp/verif-matrix'

def sh(cmd, **kw): return subprocess.run(cmd, shell=True, capture_output=True, text=True, **kw)

def run_seed(sid, props_override=None):
    sdir = os.path.join(VERIF, 'seeded', sid)
    meta = json.load(open(os.path.join(sdir, 'meta.json')))
    props = props_override or sorted(set([meta['breaks_property']] + list(meta.get('checks_run_against_it', {}).keys())))
    base = os.path.join(SCR, sid); shutil.rmtree(base, ignore_errors=True); os.makedirs(base)
    repo = os.path.join(base, 'repo'); verif = os.path.join(base, 'verif')
    results = {}
    try:
        r = sh('git -C %s worktree add --detach %s HEAD' % (REPO, repo)); assert r.returncode == 0, r.stderr
        r = sh('git -C %s apply %s' % (repo, os.path.join(sdir, 'patch.diff'))); assert r.returncode == 0, r.stderr
        r = sh("rsync -a --exclude .git --exclude .build --exclude build --exclude replays --exclude seeded --exclude notes %s/ %s/" % (VERIF, verif)); assert r.returncode == 0, r.stderr
        for f in ('kani/Cargo.toml', 'replay/Cargo.toml'):
            p = os.path.join(verif, f); t = open(p).read().replace('"/repo/', '"%s/' % repo); open(p, 'w').write(t)
        for p in props:
            t0 = time.time()
            pr = subprocess.run(['./check', p, '--tier', 'quick'], cwd=verif, capture_output=True, text=True, env=dict(os.environ, VERIF_REPO=repo))
            vl = [re.sub(re.escape(verif), '/verif', l) for l in pr.stdout.split('\n') if l.startswith('VIOLATION')]
            results[p] = {'exit': pr.returncode, 'violation_lines': vl[:8],
                          'stderr_tail': [re.sub(re.escape(base), '', l) for l in pr.stderr.strip().split('\n')[-4:]], 'wall_s': round(time.time() - t0, 1)}
            print(sid, p, 'exit', pr.returncode, len(vl), 'violations;', results[p]['stderr_tail'][-1][:160], flush=True)
    except AssertionError as e:
        print(sid, 'SETUP FAILED', str(e)[:300], flush=True); return sid, None
    finally:
        sh('git -C %s worktree remove --force %s' % (REPO, repo)); shutil.rmtree(base, ignore_errors=True); sh('git -C %s worktree prune' % REPO)
    meta['checks_run_against_it'] = results
    meta['matrix_run_at_verif_commit'] = sh('git -C %s rev-parse --short HEAD' % VERIF).stdout.strip()
    json.dump(meta, open(os.path.join(sdir, 'meta.json'), 'w'), indent=1)
    return sid, results

def classify(res):
    """how a violation was reported: deductive obligation (verus/kani) vs bounded stand-in only"""
    kinds = set()
    for l in res['violation_lines']:
        ob = l.split('obligation=')[1].split()[0] if 'obligation=' in l else ''
        if '.bounded.' in ob: kinds.add('bounded')
        elif '.kani.' in ob: kinds.add('kani')
        else: kinds.add('verus')
    return kinds

def main():
    jobs = int(sys.argv[sys.argv.index('--jobs') + 1]) if '--jobs' in sys.argv else 4
    seeds = sorted(d for d in os.listdir(os.path.join(VERIF, 'seeded')) if os.path.isdir(os.path.join(VERIF, 'seeded', d)))
    if '--only' in sys.argv: seeds = sys.argv[sys.argv.index('--only') + 1].split(',')
    props = sys.argv[sys.argv.index('--props') + 1].split(',') if '--props' in sys.argv else None
    os.makedirs(SCR, exist_ok=True)
    with ThreadPoolExecutor(max_workers=jobs) as ex: out = list(ex.map(lambda s: run_seed(s, props), seeds))
    write_md()

def write_md():
    rows = []
    sd = os.path.join(VERIF, 'seeded')
    for sid in sorted(os.listdir(sd)):
        mp = os.path.join(sd, sid, 'meta.json')
        if not os.path.exists(mp): continue
        m = json.load(open(mp)); bp = m['breaks_property']
        cells = []
        own = m.get('checks_run_against_it', {}).get(bp)
        for p, r in sorted(m.get('checks_run_against_it', {}).items()):
            k = classify(r)
            cells.append('%s: exit %d%s' % (p, r['exit'], (' (' + '+'.join(sorted(k)) + ')') if k else ''))
        verdict = 'MISSED'
        if own and own['exit'] == 1: verdict = 'caught by ' + '+'.join(sorted(classify(own)))
        elif own and own['exit'] == 2: verdict = 'undecided (exit 2)'
        if verdict != 'MISSED' and not verdict.startswith('caught'):
            others = [p for p, r in m.get('checks_run_against_it', {}).items() if r['exit'] == 1]
            if others: verdict += '; caught under ' + ','.join(sorted(others))
        obs = sorted({l.split('obligation=')[1].split()[0] for r in m.get('checks_run_against_it', {}).values() for l in r['violation_lines'] if 'obligation=' in l})
        rows.append('| `%s` | %s | %s | %s | %s |' % (sid, bp, verdict, '; '.join(cells), ', '.join('`%s`' % o for o in obs[:4]) + (' …' if len(obs) > 4 else '')))
    with open(os.path.join(sd, 'MATRIX.md'), 'w') as f:
        f.write('# Seeded changes vs. checks (generated by tools/matrix.py; quick tier)\n\n| seed | breaks | verdict of its own property check | all checks run | failing obligations |\n|---|---|---|---|---|\n' + '\n'.join(rows) + '\n')
    print(open(os.path.join(sd, 'MATRIX.md')).read())

if __name__ == '__main__':
    if '--md' in sys.argv: write_md()
    else: main()
