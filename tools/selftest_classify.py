#!/usr/bin/env python3
"""tools/selftest_classify.py: regression test of vlib/verus.py's classification of Verus diagnostics.
  (a) a unit that does not type-check            -> compile_errors, no failed obligation
  (b) a failing postcondition / closure postcondition -> failed obligation (definite), no compile error
  (c) a verifying unit                           -> success"""
import sys, os, tempfile, shutil
sys.path.insert(0, os.path.dirname(os.path.dirname(os.path.abspath(__file__))))
from vlib import verus as V
HDR = "use vstd::prelude::*;\nverus! {\n"; FTR = "\n}\nfn main() {}\n"
CASES = {
 'type_error': (HDR + "fn f(x: u8) -> (r: u8) ensures r == x { x.nope() }" + FTR, 'compile'),
 'postcondition': (HDR + "fn f(x: u8) -> (r: u8) ensures r == x   // @ob: T.f.id\n{ 0 }" + FTR, 'definite'),
 'closure_postcondition': (HDR + "fn f() { let c = |x: u8| -> (r: u8) ensures r == x   // @ob: T.f.closure\n { 0 }; }" + FTR, 'definite'),
 'ok': (HDR + "fn f(x: u8) -> (r: u8) ensures r == x { x }" + FTR, 'ok'),
}
d = tempfile.mkdtemp(prefix='pie_verif_cls_'); bad = 0
try:
    for name, (text, want) in CASES.items():
        p = os.path.join(d, name + '.rs'); open(p, 'w').write(text)
        lines = text.split('\n')
        obs = {}
        for i, l in enumerate(lines, 1):
            if '@ob:' in l: obs[l.split('@ob:')[1].strip()] = [i]
        meta = {'origins': [['code', 'f'] for _ in lines], 'obligations': obs, 'items': [{'item': 'f', 'kind': 'fn'}]}
        res = V.run_verus(p, '2021', [], None, 1)
        cls = V.classify(meta, res, text)
        got = 'compile' if cls['compile_errors'] else 'definite' if (cls['failed_tags'] or cls['untagged']) else 'ok' if cls['success'] else '?'
        print('%-24s want %-9s got %-9s %s' % (name, want, got, 'ok' if got == want else 'MISMATCH'))
        bad += got != want
finally:
    shutil.rmtree(d, ignore_errors=True)
sys.exit(1 if bad else 0)
