#!/usr/bin/env python3
"""tools/perturb.py [unit ...]: proof-stability probe.  Each unit is woven from the current tree and verified under several file
(= crate) names and solver seeds; the crate name changes every mangled symbol and with it the solver's term order, which is what
a harmless edit of the source does too.  A unit that does not verify under every variant has a brittle proof (DESIGN §6)."""
import sys, os, json, subprocess, shutil
from concurrent.futures import ThreadPoolExecutor
HERE = os.path.dirname(os.path.dirname(os.path.abspath(__file__)))
sys.path.insert(0, HERE)
from vlib import weave, verus as V
repo = os.environ.get('VERIF_REPO', '/repo')
units = [a for a in sys.argv[1:] if not a.startswith('-')] or ['graph', 'store', 'ctx', 'bu', 'queue', 'checkers', 'tracking', 'dep', 'fs', 'map']
NAMES = ['a_b', 'zz', 'unit7', 'q1x', 'm_n_o']
bad = 0
def one(job):
    u, name, seed, meta = job
    d = '/tmp/perturb/%s' % u
    src = os.path.join(d, u + '.rs'); dst = os.path.join(d, name + '.rs')
    if name != u: shutil.copy(src, dst)
    res = V.run_verus(dst, meta['edition'], meta['verus_args'], seed, 1)
    cls = V.classify(meta, res, open(dst).read())
    return u, name, seed, cls['errors'], sorted(cls['failed_tags'])[:3], [r['fns'] for r in cls['resource']], [x[0] for x in cls['untagged']][:3]
jobs = []
for u in units:
    d = '/tmp/perturb/%s' % u; os.makedirs(d, exist_ok=True)
    meta = weave.generate(repo, os.path.join(HERE, 'contracts', u + '.vc'), os.path.join(d, u + '.rs'))
    jobs += [(u, n, s, meta) for n, s in [(u, None)] + [(n, i + 1) for i, n in enumerate(NAMES)]]
with ThreadPoolExecutor(6) as ex:
    for r in ex.map(one, jobs):
        ok = r[3] == 0
        if not ok: bad += 1
        print('%-9s as %-7s seed %-4s %s %s' % (r[0], r[1], r[2], 'ok' if ok else 'FAILS', '' if ok else (r[4], r[5], r[6])))
shutil.rmtree('/tmp/perturb', ignore_errors=True)
sys.exit(1 if bad else 0)
