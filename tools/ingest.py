#!/usr/bin/env python3
"""tools/ingest.py <agent-worktree> <change-dir-name> <seed-id> <property> "<what it needs to manifest>"
Confirms, in the sub-agent's scratch worktree, a property-breaking change delivered under <worktree>/out/<change-dir>/
(patch.diff, demo files, demo_cmd.txt, notes.md):
  1. the patch applies to the clean worktree and the existing suite passes with it  (cargo test --workspace --offline)
  2. the demonstration (demo_cmd.txt, run from the worktree root) FAILS with the change
  3. and PASSES without it
and only then stores it as /verif/seeded/<seed-id>/ {patch.diff, demo files, demo_cmd.txt, notes.md, meta.json}.
Running the checks against it is tools/matrix.py's job."""
import sys, os, subprocess, json, shutil
wt, chg, sid, prop, needs = sys.argv[1:6]
src = os.path.join(wt, 'out', chg)
out = os.path.join('/verif/seeded', sid)
env = dict(os.environ, CARGO_TARGET_DIR=os.path.join(wt, 'target'), CARGO_NET_OFFLINE='true')
def run(cmd, timeout=3600):
    p = subprocess.run(['bash', '-c', cmd], cwd=wt, env=env, capture_output=True, text=True, timeout=timeout)
    return p.returncode, (p.stdout + p.stderr)
def clean():
    run('git checkout -- . && git clean -fdq -e out -e target')
clean()
rc, o = run('git status --porcelain -- graph pie'); assert not o.strip(), 'worktree not clean: ' + o
patch = os.path.join(src, 'patch.diff')
rc, o = run('git apply %s' % patch); assert rc == 0, 'patch does not apply: ' + o
ran = []
rc2, o2 = run('cargo test --workspace --no-fail-fast --offline')
ran.append({'step': 'existing suite with change: cargo test --workspace --no-fail-fast --offline', 'exit': rc2})
demo_cmd = open(os.path.join(src, 'demo_cmd.txt')).read().strip()
steps = []
for l in demo_cmd.split('\n'):
    for part in l.strip().split('&&'):
        part = part.strip()
        if not part or part.startswith('#'): continue
        if part.startswith(('cp ', 'mkdir ')) or 'cargo test' in part: steps.append(part)      # git apply / cleanup / cd lines of the agent are not replayed: this tool applies and undoes the patch itself
demo_cmd = ' && '.join(steps)
rc1, o1 = run(demo_cmd); ran.append({'step': 'demo with change: ' + demo_cmd, 'exit': rc1})
run('git checkout -- .')
rc3, o3 = run(demo_cmd); ran.append({'step': 'demo without change: ' + demo_cmd, 'exit': rc3})
clean()
confirmed = rc2 == 0 and rc1 != 0 and rc3 == 0 and ('test result: FAILED' in o1 or 'panicked' in o1)
print(json.dumps(ran, indent=1)); print('CONFIRMED' if confirmed else 'NOT CONFIRMED')
if not confirmed:
    print('--- suite\n', o2[-1500:], '\n--- demo with\n', o1[-1500:], '\n--- demo without\n', o3[-1500:]); sys.exit(1)
os.makedirs(out, exist_ok=True)
for f in os.listdir(src):
    if f.endswith('.txt') and f not in ('demo_cmd.txt',): continue      # captured outputs of the agent: not kept
    if os.path.isfile(os.path.join(src, f)): shutil.copy(os.path.join(src, f), os.path.join(out, f))
meta = {'seed': sid, 'breaks_property': prop, 'confirmed': True, 'needs_to_manifest': needs, 'what_i_ran': ran,
        'demo': [f for f in os.listdir(out) if f.endswith('.rs')], 'origin': 'independent sub-agent given only the property text and a scratch worktree',
        'checks_run_against_it': {}}
json.dump(meta, open(os.path.join(out, 'meta.json'), 'w'), indent=1)
print('stored', out)
